// vcheck is the driver and worker of the runtime-monitoring checks.
//
//	vcheck <Cxx> <quick|thorough>          run a check (driver: spawns worker processes, merges, reports)
//	vcheck <Cxx> --replay <path>           re-run exactly the case recorded in a replay file
//	vcheck worker ...                      internal
package main

import (
	"bufio"
	"bytes"
	"context"
	"encoding/json"
	"fmt"
	"os"
	"os/exec"
	"path/filepath"
	"regexp"
	"runtime"
	"sort"
	"strconv"
	"strings"
	"sync"
	"syscall"
	"time"

	"verif/internal/fw"
	"verif/props"
)

func verifDir() string {
	if d := os.Getenv("VERIF_DIR"); d != "" {
		return d
	}
	return "/verif"
}

func outDir() string {
	if d := os.Getenv("VERIF_OUT"); d != "" {
		return d
	}
	return verifDir()
}

func seed() int64 {
	if s := os.Getenv("VERIF_SEED"); s != "" {
		if v, err := strconv.ParseInt(s, 10, 64); err == nil {
			return v
		}
	}
	return 1
}

func main() {
	if len(os.Args) < 3 {
		fmt.Fprintln(os.Stderr, "usage: vcheck <Cxx> <quick|thorough> | vcheck <Cxx> --replay <path>")
		os.Exit(3)
	}
	if os.Args[1] == "worker" {
		worker(os.Args[2:])
		return
	}
	if os.Args[1] == "c20child" {
		os.Exit(props.C20Child(os.Args[2]))
	}
	prop := os.Args[1]
	ch := fw.Get(prop)
	if ch == nil {
		fmt.Fprintf(os.Stderr, "unknown property %s (have %v)\n", prop, fw.IDs())
		os.Exit(3)
	}
	if os.Args[2] == "--replay" {
		if len(os.Args) < 4 {
			fmt.Fprintln(os.Stderr, "--replay needs a path")
			os.Exit(3)
		}
		os.Exit(replay(ch, os.Args[3]))
	}
	tier := os.Args[2]
	if t := os.Getenv("VERIF_TIER"); t != "" && tier == "" {
		tier = t
	}
	if tier != "quick" && tier != "thorough" {
		fmt.Fprintln(os.Stderr, "tier must be quick or thorough")
		os.Exit(3)
	}
	os.Exit(drive(ch, tier, seed()))
}

type replayFile struct {
	Property string       `json:"property"`
	Tier     string       `json:"tier"`
	Seed     int64        `json:"seed"`
	Shards   int          `json:"shards"`
	V        fw.Violation `json:"violation"`
}

func replay(ch *fw.Check, path string) int {
	b, err := os.ReadFile(path)
	if err != nil {
		fmt.Fprintln(os.Stderr, err)
		return 3
	}
	var rf replayFile
	if err := json.Unmarshal(b, &rf); err != nil {
		fmt.Fprintln(os.Stderr, err)
		return 3
	}
	wd, _ := os.MkdirTemp("", "vcheck-replay-")
	defer os.RemoveAll(wd)
	c := fw.NewCtx(ch.ID, rf.Tier, rf.Seed, 0, 1, "")
	c.Only = rf.V.CaseID
	c.WorkDir = wd
	ch.Run(c)
	res := c.Result()
	fmt.Printf("replayed case %q: %d evaluation(s), %d violation(s)\n", rf.V.CaseID, res.Evaluations, len(res.Violations))
	for _, v := range res.Violations {
		fmt.Printf("--- rule=%s signature=%s\n%s\n", v.Rule, v.Signature, v.Detail)
	}
	if len(res.Violations) > 0 {
		fmt.Printf("VIOLATION property=%s replay=%s\n", ch.ID, path)
		return 1
	}
	return 0
}

func worker(args []string) {
	// prop tier seed shard n outfile journal after
	if len(args) < 8 {
		os.Exit(3)
	}
	prop, tier := args[0], args[1]
	sd, _ := strconv.ParseInt(args[2], 10, 64)
	shard, _ := strconv.Atoi(args[3])
	n, _ := strconv.Atoi(args[4])
	out, journal, wd := args[5], args[6], args[7]
	ch := fw.Get(prop)
	if ch == nil {
		os.Exit(3)
	}
	c := fw.NewCtx(prop, tier, sd, shard, n, journal)
	c.WorkDir = wd
	done := make(chan struct{})
	var wg sync.WaitGroup
	wg.Add(1)
	go func() { // periodic flush so that a dying worker leaves its counters behind
		defer wg.Done()
		t := time.NewTicker(3 * time.Second)
		defer t.Stop()
		for {
			select {
			case <-done:
				return
			case <-t.C:
				fw.WriteJSON(out+".partial", c.Result())
			}
		}
	}()
	ch.Run(c)
	close(done)
	wg.Wait()
	if err := fw.WriteJSON(out, c.Result()); err != nil {
		fmt.Fprintln(os.Stderr, err)
		os.Exit(3)
	}
}

func drive(ch *fw.Check, tier string, sd int64) int {
	start := time.Now()
	vd := verifDir()
	work, err := os.MkdirTemp("", "vcheck-"+ch.ID+"-")
	if err != nil {
		fmt.Fprintln(os.Stderr, err)
		return 3
	}
	defer os.RemoveAll(work)
	n := runtime.NumCPU()
	if n > 16 {
		n = 16
	}
	if v := os.Getenv("VERIF_WORKERS"); v != "" {
		if k, err := strconv.Atoi(v); err == nil && k > 0 {
			n = k
		}
	}
	if ch.Serial {
		n = 1
	}
	limit := 25 * time.Minute
	if tier == "thorough" {
		limit = 4 * time.Hour
	}
	exe, _ := os.Executable()
	if ch.Race {
		exe = filepath.Join(filepath.Dir(exe), "vcheck.race")
		if _, err := os.Stat(exe); err != nil {
			fmt.Fprintln(os.Stderr, "race build missing:", err)
			return 3
		}
		os.Setenv("GORACE", "halt_on_error=0 exitcode=0 log_path="+filepath.Join(work, "race"))
	}
	results := make([]*fw.Result, n)
	var wg sync.WaitGroup
	for i := 0; i < n; i++ {
		wg.Add(1)
		go func(i int) {
			defer wg.Done()
			results[i] = runWorker(exe, ch, tier, sd, i, n, work, limit)
		}(i)
	}
	wg.Wait()

	if ch.Race {
		results = append(results, raceReports(work))
	}

	// merge
	merged := &fw.Result{Counters: map[string]int64{}, Sets: map[string][]string{}}
	distinct := map[string]struct{}{}
	sets := map[string]map[string]struct{}{}
	inconclusive := ""
	for _, r := range results {
		if r == nil {
			continue
		}
		merged.Evaluations += r.Evaluations
		for _, d := range r.Distinct {
			distinct[d] = struct{}{}
		}
		for k, v := range r.Counters {
			if strings.HasPrefix(k, "max:") {
				if merged.Counters[k] < v {
					merged.Counters[k] = v
				}
			} else {
				merged.Counters[k] += v
			}
		}
		for k, vs := range r.Sets {
			if sets[k] == nil {
				sets[k] = map[string]struct{}{}
			}
			for _, v := range vs {
				sets[k][v] = struct{}{}
			}
		}
		if len(merged.Samples) < 6 {
			for _, s := range r.Samples {
				if len(merged.Samples) < 6 {
					merged.Samples = append(merged.Samples, s)
				}
			}
		}
		merged.Violations = append(merged.Violations, r.Violations...)
		if r.Died != "" {
			inconclusive = r.Died
		}
	}

	findings, err := fw.LoadFindings(filepath.Join(vd, "known_findings.json"))
	if err != nil {
		fmt.Fprintln(os.Stderr, "known_findings.json:", err)
		return 3
	}
	known := map[string]fw.Finding{}
	for _, f := range findings {
		if f.Property == ch.ID && f.Status == "known" {
			known[f.Signature] = f
		}
	}
	knownSeen := map[string]int64{}
	var unknown []fw.Violation
	seenSig := map[string]bool{}
	for _, v := range merged.Violations {
		if _, ok := known[v.Signature]; ok {
			knownSeen[v.Signature] = merged.Counters["sig:"+v.Signature]
			continue
		}
		if seenSig[v.Signature+"|"+v.CaseID] {
			continue
		}
		seenSig[v.Signature+"|"+v.CaseID] = true
		unknown = append(unknown, v)
	}
	var ksigs []string
	for s := range knownSeen {
		ksigs = append(ksigs, s)
	}
	sort.Strings(ksigs)
	for _, s := range ksigs {
		fmt.Printf("KNOWN-FINDING: property=%s %s — %s (observed %d×)\n", ch.ID, s, known[s].Description, knownSeen[s])
	}
	sort.Slice(unknown, func(i, j int) bool {
		if unknown[i].Signature != unknown[j].Signature {
			return unknown[i].Signature < unknown[j].Signature
		}
		return unknown[i].CaseID < unknown[j].CaseID
	})
	perSig := map[string]int{}
	nviol := 0
	for _, v := range unknown {
		perSig[v.Signature]++
		if perSig[v.Signature] > 3 {
			continue
		}
		nviol++
		if nviol > 30 {
			break
		}
		rp := filepath.Join(outDir(), "replays", ch.ID, fw.Hash(v.Signature+v.CaseID)+".json")
		fw.WriteJSON(rp, replayFile{Property: ch.ID, Tier: tier, Seed: sd, Shards: n, V: v})
		fmt.Printf("VIOLATION property=%s replay=%s\n", ch.ID, rp)
		fmt.Printf("  rule=%s signature=%s case=%s\n", v.Rule, v.Signature, v.CaseID)
		d := v.Detail
		if len(d) > 1200 {
			d = d[:1200] + "…"
		}
		fmt.Printf("  %s\n", strings.ReplaceAll(d, "\n", "\n  "))
	}

	// evidence
	cov := map[string]interface{}{}
	cov["evaluations"] = merged.Evaluations
	cov["distinct_nontrivial"] = len(distinct)
	cov["rule"] = ch.Rule
	samples := []interface{}{}
	for _, s := range merged.Samples {
		var v interface{}
		json.Unmarshal(s, &v)
		samples = append(samples, v)
	}
	cov["samples"] = samples
	obs := map[string]interface{}{}
	var ckeys []string
	for k := range merged.Counters {
		ckeys = append(ckeys, k)
	}
	sort.Strings(ckeys)
	for _, k := range ckeys {
		obs[k] = merged.Counters[k]
	}
	cov["counters"] = obs
	setOut := map[string]interface{}{}
	for k, m := range sets {
		var vs []string
		for v := range m {
			vs = append(vs, v)
		}
		sort.Strings(vs)
		cov["n_"+k] = len(vs)
		if len(vs) > 400 {
			vs = vs[:400]
		}
		setOut[k] = vs
	}
	cov["observed"] = setOut
	cov["workers"] = n
	var kf []string
	for _, s := range ksigs {
		kf = append(kf, fmt.Sprintf("%s ×%d", s, knownSeen[s]))
	}
	cov["known_findings_observed"] = kf
	ev := map[string]interface{}{
		"property_id": ch.ID,
		"tier":        tier,
		"seed":        sd,
		"level":       ch.Level,
		"coverage":    cov,
		"assumptions": ch.Assumptions,
		"wall_s":      time.Since(start).Seconds(),
		"violations":  len(unknown),
	}
	verdict := "held on what was observed"
	code := 0
	if len(unknown) > 0 {
		verdict = "violated"
		code = 1
	} else {
		floor := ch.Floor
		if merged.Evaluations < floor || len(distinct) < 2 {
			inconclusive = fmt.Sprintf("only %d evaluations / %d distinct (floor %d)", merged.Evaluations, len(distinct), floor)
		}
		for k, min := range ch.Required {
			if len(sets[k]) < min {
				inconclusive = fmt.Sprintf("observed only %d distinct %s (need %d)", len(sets[k]), k, min)
			}
		}
		if inconclusive != "" {
			verdict = "inconclusive: " + inconclusive
			code = 2
		}
	}
	ev["verdict"] = verdict
	if err := fw.WriteJSON(filepath.Join(outDir(), "evidence", ch.ID+".json"), ev); err != nil {
		fmt.Fprintln(os.Stderr, err)
		return 3
	}
	fmt.Printf("%s %s seed=%d: %d evaluations, %d distinct non-trivial, %d violation(s), %d known-finding signature(s), %.1fs — %s\n",
		ch.ID, tier, sd, merged.Evaluations, len(distinct), len(unknown), len(ksigs), time.Since(start).Seconds(), verdict)
	return code
}

// runWorker runs one shard in a child process; if the child dies, the journal tells which case
// was executing, the death is recorded as a violation and the shard is resumed after that case.
func runWorker(exe string, ch *fw.Check, tier string, sd int64, shard, n int, work string, limit time.Duration) *fw.Result {
	total := &fw.Result{Counters: map[string]int64{}, Sets: map[string][]string{}}
	mergeIn := func(r *fw.Result) {
		total.Evaluations += r.Evaluations
		total.Distinct = append(total.Distinct, r.Distinct...)
		for k, v := range r.Counters {
			if strings.HasPrefix(k, "max:") {
				if total.Counters[k] < v {
					total.Counters[k] = v
				}
			} else {
				total.Counters[k] += v
			}
		}
		for k, v := range r.Sets {
			total.Sets[k] = append(total.Sets[k], v...)
		}
		total.Samples = append(total.Samples, r.Samples...)
		total.Violations = append(total.Violations, r.Violations...)
	}
	after := ""
	for attempt := 0; attempt < 12; attempt++ {
		out := filepath.Join(work, fmt.Sprintf("res-%d-%d.json", shard, attempt))
		journal := filepath.Join(work, fmt.Sprintf("journal-%d-%d", shard, attempt))
		wd := filepath.Join(work, fmt.Sprintf("wd-%d-%d", shard, attempt))
		os.MkdirAll(wd, 0755)
		ctx, cancel := context.WithTimeout(context.Background(), limit)
		cmd := exec.CommandContext(ctx, exe, "worker", ch.ID, tier, strconv.FormatInt(sd, 10), strconv.Itoa(shard), strconv.Itoa(n), out, journal, wd)
		cmd.Env = append(os.Environ(), "VCHECK_AFTER="+after)
		var stderr bytes.Buffer
		cmd.Stderr = &stderr
		cmd.Stdout = os.Stderr
		cmd.Cancel = func() error { return cmd.Process.Signal(syscall.SIGQUIT) }
		cmd.WaitDelay = 10 * time.Second
		err := cmd.Run()
		timedOut := ctx.Err() != nil
		cancel()
		os.RemoveAll(wd)
		if err == nil {
			b, rerr := os.ReadFile(out)
			var r fw.Result
			if rerr == nil && json.Unmarshal(b, &r) == nil {
				mergeIn(&r)
				if s := strings.TrimSpace(stderr.String()); s != "" {
					fmt.Fprintln(os.Stderr, tail(s, 2000))
				}
				return total
			}
			total.Died = "worker result unreadable"
			return total
		}
		// child died
		if b, rerr := os.ReadFile(out + ".partial"); rerr == nil {
			var r fw.Result
			if json.Unmarshal(b, &r) == nil {
				mergeIn(&r)
			}
		}
		if timedOut {
			total.Died = fmt.Sprintf("watchdog fired after %s in shard %d", limit, shard)
			return total
		}
		last := lastLine(journal)
		se := stderr.String()
		sig := deathSignature(se)
		total.Counters["sig:"+sig]++
		total.Violations = append(total.Violations, fw.Violation{Rule: "process-death", Signature: sig, CaseID: last, Detail: tail(se, 4000)})
		if last == "" {
			total.Died = "worker died before its first case: " + tail(se, 300)
			return total
		}
		after = last
	}
	total.Died = "worker died repeatedly"
	return total
}

func deathSignature(stderr string) string {
	sc := bufio.NewScanner(strings.NewReader(stderr))
	sc.Buffer(make([]byte, 1<<20), 1<<20)
	first := ""
	fn := ""
	for sc.Scan() {
		l := sc.Text()
		if first == "" && (strings.HasPrefix(l, "fatal error:") || strings.HasPrefix(l, "panic:") || strings.HasPrefix(l, "runtime:")) {
			first = l
			if len(first) > 80 {
				first = first[:80]
			}
		}
		if first != "" && fn == "" && strings.HasPrefix(l, "github.com/dave/dst") {
			fn = l
			if i := strings.Index(fn, "("); i > 0 {
				fn = fn[:i]
			}
		}
	}
	if first == "" {
		first = "unknown death"
	}
	return "death:" + first + " @ " + strings.TrimPrefix(fn, "github.com/dave/dst")
}

func lastLine(path string) string {
	b, err := os.ReadFile(path)
	if err != nil {
		return ""
	}
	lines := strings.Split(strings.TrimSpace(string(b)), "\n")
	return lines[len(lines)-1]
}

func tail(s string, n int) string {
	if len(s) > n {
		return s[:n/2] + "\n…\n" + s[len(s)-n/2:]
	}
	return s
}

var raceFrame = regexp.MustCompile(`^  (github\.com/dave/dst[^\s(]*\.[A-Za-z0-9_.()*]+)`)

// raceReports parses the race detector's log files: one violation per distinct pair of innermost
// dave/dst frames; every report is counted.
func raceReports(work string) *fw.Result {
	res := &fw.Result{Counters: map[string]int64{}, Sets: map[string][]string{}}
	logs, _ := filepath.Glob(filepath.Join(work, "race.*"))
	seen := map[string]bool{}
	for _, lg := range logs {
		b, err := os.ReadFile(lg)
		if err != nil {
			continue
		}
		for _, block := range strings.Split(string(b), "==================") {
			if !strings.Contains(block, "WARNING: DATA RACE") {
				continue
			}
			res.Counters["race_reports"]++
			// innermost dst frame of each of the two stacks
			var frames []string
			for _, stack := range strings.Split(block, "\n\n") {
				if !(strings.Contains(stack, " by goroutine ") || strings.Contains(stack, " by main goroutine")) || strings.Contains(stack, "created at:") && !strings.Contains(stack, "Previous") && !strings.Contains(stack, "Read at") && !strings.Contains(stack, "Write at") {
					continue
				}
				if len(frames) == 2 {
					break
				}
				fr := "(no dst frame)"
				for _, l := range strings.Split(stack, "\n") {
					if m := raceFrame.FindStringSubmatch(l); m != nil {
						fr = strings.TrimPrefix(m[1], "github.com/dave/dst")
						break
					}
				}
				frames = append(frames, fr)
			}
			sort.Strings(frames)
			sig := "race:" + strings.Join(frames, "|")
			res.Counters["sig:"+sig]++
			if !seen[sig] {
				seen[sig] = true
				d := block
				if len(d) > 3500 {
					d = d[:3500]
				}
				res.Violations = append(res.Violations, fw.Violation{Rule: "data-race", Signature: sig, CaseID: "race-log", Detail: d})
			}
		}
	}
	if _, ok := res.Counters["race_reports"]; !ok {
		res.Counters["race_reports"] = 0
	}
	return res
}
