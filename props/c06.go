package props

import (
	"bytes"
	"fmt"
	"go/parser"
	"go/token"
	"os"
	"path/filepath"
	"reflect"

	"github.com/dave/dst"
	"github.com/dave/dst/decorator"
	"github.com/dave/dst/decorator/resolver/goast"
	"github.com/dave/dst/decorator/resolver/simple"
	"golang.org/x/tools/go/packages"

	"verif/internal/corpus"
	"verif/internal/fw"
	"verif/internal/gen"
	"verif/internal/refl"
)

func init() {
	fw.Register(&fw.Check{
		ID:    "C06",
		Level: "exploration",
		Rule: "cases: (a) reflection-built instances of every dst node type with every field, flag, child, list, decoration slice and spacing non-zero; (b) corpus files decorated " +
			"and then densely decorated (a unique comment on every attachment point), cloned whole and per declaration / statement / expression; (c) sharing: the same node placed " +
			"at two positions of a file (declarations, statements, expressions, fields, specs, a FuncDecl's signature) must make RestoreFile panic, a clone in the second position " +
			"must print both. Monitors: reflection deep-equality original vs clone (Obj/Scope asserted nil in the clone), disjointness of all pointers, maps and slice backing " +
			"arrays reachable from both, scramble-one-side-then-recheck against an independent reflection snapshot (both directions), print equality with the clone substituted. " +
			"distinct_nontrivial = distinct (type, field) pairs that were non-zero in a compared pair.",
		Floor: 100,
		Run:   runC06,
		Assumptions: []string{
			"deep equality, aliasing and snapshots are computed by the monitor's own reflection walker, not by dst's generated code",
		},
		Required: map[string]int{"filled_types": 54, "shared_positions": 6},
	})
}

// c06Compare runs the structural monitors on one node.
func c06Compare(c *fw.Ctx, label string, n dst.Node, fields map[string]bool) (ok bool) {
	ok = true
	// Outside the statement: fields that printing never consults and that belong to identifier
	// resolution. They are cleared in the input so the comparison does not demand them.
	for _, x := range refl.DstPreorder(n) {
		switch x := x.(type) {
		case *dst.FuncDecl:
			if x.Type != nil {
				x.Type.Decs.Before, x.Type.Decs.After = dst.None, dst.None // a declaration's signature has no spacing of its own
			}
		case *dst.File:
			x.Unresolved = nil // part of the object-resolution graph, like Obj and Scope
		}
	}
	snap := refl.DeepCopy(n).(dst.Node)
	var cl dst.Node
	if sig, detail := fw.Try(func() { cl = dst.Clone(n) }); sig != "" {
		c.Violate("clone-panic", sig, label+"\n"+detail, "")
		return false
	}
	tn := refl.TypeName(n)
	if reflect.TypeOf(cl) != reflect.TypeOf(n) {
		c.Violate("clone-type", "clone-type:"+tn, fmt.Sprintf("%s: Clone(%T) returned %T", label, n, cl), "")
		return false
	}
	if d := refl.DeepEqualDst(n, cl); d != "" {
		c.Violate("clone-differs", "clone-differs:"+tn, label+": "+d, "")
		ok = false
	}
	// Obj / Scope dropped
	for _, x := range refl.DstPreorder(cl) {
		v := reflect.ValueOf(x).Elem()
		for _, fn := range []string{"Obj", "Scope"} {
			if f := v.FieldByName(fn); f.IsValid() && !f.IsNil() {
				c.Violate("clone-keeps-object", "clone-keeps-object:"+refl.TypeName(x)+"."+fn, label+": clone retains "+fn, "")
				ok = false
			}
		}
	}
	if pk, ok := cl.(*dst.Package); ok {
		for k, o := range pk.Imports {
			if o != nil {
				c.Violate("clone-keeps-object", "clone-keeps-object:Package.Imports", label+": the cloned package still links to the object of imported package "+k, "")
				ok = false
			}
		}
	}
	// no shared storage
	if ov := refl.Overlap(refl.Reach(n, false), refl.Reach(cl, false)); len(ov) > 0 {
		c.Violate("clone-aliases", "clone-aliases:"+tn, fmt.Sprintf("%s: %d shared locations, first: %s", label, len(ov), ov[0]), "")
		ok = false
	}
	// scramble the clone, the original must equal its snapshot; then the reverse
	cl2 := dst.Clone(n)
	m := refl.Scramble(cl)
	if d := refl.DeepEqualDst(n, snap); d != "" {
		c.Violate("mutation-leaks", "mutation-leaks:clone->orig:"+tn, label+": after mutating the clone the original changed: "+d, "")
		ok = false
	}
	snap2 := refl.DeepCopy(cl2)
	refl.Scramble(n)
	if d := refl.DeepEqualDst(cl2, snap2); d != "" {
		c.Violate("mutation-leaks", "mutation-leaks:orig->clone:"+tn, label+": after mutating the original the clone changed: "+d, "")
		ok = false
	}
	c.Count("mutations_applied", int64(m))
	c.Count("nodes_compared", 1)
	_ = fields
	return ok
}

func printFile(f *dst.File) (string, string) {
	var buf bytes.Buffer
	var err error
	if sig, detail := fw.Try(func() { err = decorator.Fprint(&buf, f) }); sig != "" {
		return "", sig + "\n" + detail
	}
	if err != nil {
		return "", "error: " + err.Error()
	}
	return buf.String(), ""
}

func runC06(c *fw.Ctx) {
	fields := map[string]bool{}
	all := refl.AllFields(gen.NodeTypes())

	// (a) filled instances
	for i, t := range gen.NodeTypes() {
		if !c.Mine(i) {
			continue
		}
		id := "fill:" + t.Elem().Name()
		c.Case(id, func() {
			for depth := 1; depth <= 3; depth++ {
				fl := &gen.Filler{}
				n := fl.Fill(t, depth)
				refl.NonZeroFields(n, fields)
				c06Compare(c, fmt.Sprintf("%s depth %d", id, depth), n, fields)
			}
			c.Observe("filled_types", t.Elem().Name())
		})
	}

	// (b) corpus
	files := corpus.Sample(c.Rand("files"), c.Pick(120, 2500))
	for i, p := range files {
		if !c.Mine(i) {
			continue
		}
		src := readFile(p)
		if src == nil || len(src) > 120000 {
			continue
		}
		id := "file:" + corpus.Rel(p)
		c.Case(id, func() {
			f, err := decorator.Parse(src)
			if err != nil {
				return
			}
			k := 0
			decorateAll(f, func(n dst.Node, point string) string {
				k++
				return fmt.Sprintf("/*%d:%s.%s*/", k, refl.TypeName(n), point)
			})
			refl.NonZeroFields(f, fields)
			want, perr := printFile(f)
			if perr != "" {
				c.Count("inconclusive_dense_print_failed", 1)
				return
			}
			// whole-file clone prints identically
			cf := dst.Clone(f).(*dst.File)
			got, perr := printFile(cf)
			if perr != "" || got != want {
				c.Violate("clone-prints-differently", "clone-prints-differently:File", id+": whole-file clone prints differently "+perr, string(src))
			}
			// the same context includes the restorer: original and clone printed one after the other
			// by one Restorer (its file set then holds the original when the clone is printed)
			rs := decorator.NewRestorer()
			var b1, b2 bytes.Buffer
			var e1, e2 error
			if sig, detail := fw.Try(func() {
				e1 = rs.Fprint(&b1, f)
				e2 = rs.Fprint(&b2, dst.Clone(f).(*dst.File))
			}); sig != "" {
				c.Violate("clone-prints-differently", "clone-prints-differently:File:same-restorer:"+sig, id+": original, then its clone, printed by one Restorer: "+detail, string(src))
			} else if e1 != nil || e2 != nil || b1.String() != want || b2.String() != want {
				c.Violate("clone-prints-differently", "clone-prints-differently:File:same-restorer", fmt.Sprintf("%s: original, then its clone, printed by one Restorer: errors %v / %v, original identical to the single print: %v, clone identical: %v", id, e1, e2, b1.String() == want, b2.String() == want), string(src))
			} else {
				c.Count("clone_after_original_same_restorer", 1)
			}
			// substitute clones of a sample of subtrees, print must stay identical
			r := c.Rand(id)
			nodes := refl.DstPreorder(f)
			subs := 0
			for try := 0; try < 400 && subs < c.Pick(12, 40); try++ {
				parent := nodes[r.Intn(len(nodes))]
				ch := refl.DstChildren(parent)
				if len(ch) == 0 {
					continue
				}
				pick := ch[r.Intn(len(ch))]
				if _, isFile := parent.(*dst.Package); isFile {
					continue
				}
				fv := reflect.ValueOf(parent).Elem().FieldByName(pick.Field)
				slot := fv
				if pick.Index >= 0 {
					slot = fv.Index(pick.Index)
				}
				orig := slot.Interface().(dst.Node)
				cl := dst.Clone(orig)
				slot.Set(reflect.ValueOf(cl))
				got, perr := printFile(f)
				if perr != "" || got != want {
					c.Violate("clone-prints-differently", "clone-prints-differently:"+refl.TypeName(orig), fmt.Sprintf("%s: clone of %s in %s.%s prints differently %s", id, refl.TypeName(orig), refl.TypeName(parent), pick.Field, perr), string(src))
				}
				slot.Set(reflect.ValueOf(orig))
				subs++
				c.Count("substitutions", 1)
				c.Observe("substituted_types", refl.TypeName(orig))
			}
			// structural monitors on the whole file and on a few subtrees (destructive: last)
			for s := 0; s < 3; s++ {
				n := nodes[r.Intn(len(nodes))]
				c06Compare(c, id+"/"+refl.TypeName(n), dst.Clone(n), fields)
			}
			c06Compare(c, id, f, fields)
			if i < 3 {
				c.Sample(map[string]interface{}{"case": id, "nodes": len(nodes), "substitutions": subs})
			}
		})
	}

	// (c) sharing
	sharing := []struct {
		name string
		src  string
		do   func(f *dst.File, clone bool)
	}{
		{"File.Decls", "package p\n\nfunc a() {}\n\nvar x int\n", func(f *dst.File, cl bool) {
			f.Decls = append(f.Decls, pickNode(f.Decls[1], cl).(dst.Decl))
		}},
		{"File.Decls/FuncDecl", "package p\n\nfunc a(i int) (r int) { return i }\n", func(f *dst.File, cl bool) {
			f.Decls = append(f.Decls, pickNode(f.Decls[0], cl).(dst.Decl))
		}},
		{"BlockStmt.List", "package p\n\nfunc a() {\n\tx := 1\n\t_ = x\n}\n", func(f *dst.File, cl bool) {
			b := f.Decls[0].(*dst.FuncDecl).Body
			b.List = append(b.List, pickNode(b.List[1], cl).(dst.Stmt))
		}},
		{"AssignStmt.Lhs/Rhs", "package p\n\nfunc a() {\n\tx = y\n}\n", func(f *dst.File, cl bool) {
			as := f.Decls[0].(*dst.FuncDecl).Body.List[0].(*dst.AssignStmt)
			as.Rhs[0] = pickNode(as.Lhs[0], cl).(dst.Expr)
		}},
		{"BinaryExpr.X/Y", "package p\n\nvar v = f(1) + g(2)\n", func(f *dst.File, cl bool) {
			be := f.Decls[0].(*dst.GenDecl).Specs[0].(*dst.ValueSpec).Values[0].(*dst.BinaryExpr)
			be.Y = pickNode(be.X, cl).(dst.Expr)
		}},
		{"CallExpr.Args", "package p\n\nvar v = f(a.b, 2)\n", func(f *dst.File, cl bool) {
			ce := f.Decls[0].(*dst.GenDecl).Specs[0].(*dst.ValueSpec).Values[0].(*dst.CallExpr)
			ce.Args[1] = pickNode(ce.Args[0], cl).(dst.Expr)
		}},
		{"StructType.Fields", "package p\n\ntype T struct {\n\tA int\n\tB string\n}\n", func(f *dst.File, cl bool) {
			st := f.Decls[0].(*dst.GenDecl).Specs[0].(*dst.TypeSpec).Type.(*dst.StructType)
			st.Fields.List = append(st.Fields.List, pickNode(st.Fields.List[0], cl).(*dst.Field))
		}},
		{"GenDecl.Specs", "package p\n\nvar (\n\ta int\n\tb int\n)\n", func(f *dst.File, cl bool) {
			gd := f.Decls[0].(*dst.GenDecl)
			gd.Specs = append(gd.Specs, pickNode(gd.Specs[0], cl).(dst.Spec))
		}},
		{"Field.Type across fields", "package p\n\nfunc a(x []int, y string) {}\n", func(f *dst.File, cl bool) {
			ps := f.Decls[0].(*dst.FuncDecl).Type.Params.List
			ps[1].Type = pickNode(ps[0].Type, cl).(dst.Expr)
		}},
		{"FuncDecl.Type across decls", "package p\n\nfunc a(i int) {}\n\nfunc b(s string) {}\n", func(f *dst.File, cl bool) {
			f.Decls[1].(*dst.FuncDecl).Type = pickNode(f.Decls[0].(*dst.FuncDecl).Type, cl).(*dst.FuncType)
		}},
		{"FuncDecl.Type (hand-built, nil field lists) across decls", "package p\n", func(f *dst.File, cl bool) {
			ft := &dst.FuncType{Func: true}
			f.Decls = append(f.Decls, &dst.FuncDecl{Name: dst.NewIdent("a"), Type: ft, Body: &dst.BlockStmt{}})
			f.Decls = append(f.Decls, &dst.FuncDecl{Name: dst.NewIdent("b"), Type: pickNode(ft, cl).(*dst.FuncType), Body: &dst.BlockStmt{}})
		}},
		{"FuncDecl.Body across decls", "package p\n\nfunc a() { x() }\n\nfunc b() {}\n", func(f *dst.File, cl bool) {
			f.Decls[1].(*dst.FuncDecl).Body = pickNode(f.Decls[0].(*dst.FuncDecl).Body, cl).(*dst.BlockStmt)
		}},
		{"FuncDecl.Name vs call", "package p\n\nfunc a() { a() }\n", func(f *dst.File, cl bool) {
			fd := f.Decls[0].(*dst.FuncDecl)
			fd.Body.List[0].(*dst.ExprStmt).X.(*dst.CallExpr).Fun = pickNode(fd.Name, cl).(dst.Expr)
		}},
		{"CaseClause.Body", "package p\n\nfunc a() {\n\tswitch x {\n\tcase 1:\n\t\tf()\n\tcase 2:\n\t\tg()\n\t}\n}\n", func(f *dst.File, cl bool) {
			sw := f.Decls[0].(*dst.FuncDecl).Body.List[0].(*dst.SwitchStmt)
			c1 := sw.Body.List[0].(*dst.CaseClause)
			c2 := sw.Body.List[1].(*dst.CaseClause)
			c2.Body = append(c2.Body, pickNode(c1.Body[0], cl).(dst.Stmt))
		}},
		{"CompositeLit.Elts", "package p\n\nvar v = []T{{1}, {2}}\n", func(f *dst.File, cl bool) {
			cl0 := f.Decls[0].(*dst.GenDecl).Specs[0].(*dst.ValueSpec).Values[0].(*dst.CompositeLit)
			cl0.Elts = append(cl0.Elts, pickNode(cl0.Elts[0], cl).(dst.Expr))
		}},
		{"ImportSpec", "package p\n\nimport (\n\t\"a\"\n\t\"b\"\n)\n", func(f *dst.File, cl bool) {
			gd := f.Decls[0].(*dst.GenDecl)
			gd.Specs = append(gd.Specs, pickNode(gd.Specs[0], cl).(dst.Spec))
		}},
	}
	for i, sh := range sharing {
		if !c.Mine(i) {
			continue
		}
		c.Case("share:"+sh.name, func() {
			// shared node: must panic
			f, err := decorator.Parse(sh.src)
			if err != nil {
				panic(err)
			}
			sh.do(f, false)
			sig, _ := fw.Try(func() { decorator.RestoreFile(f) })
			if sig == "" {
				out, _ := printFile(f)
				c.Violate("shared-node-accepted", "shared-node-accepted:"+sh.name, "a tree with one node at two places ("+sh.name+") was restored without panic:\n"+out, sh.src)
			} else {
				c.Count("shared_rejected", 1)
			}
			// the rejection does not depend on restorer options: the same with Extras
			fx, _ := decorator.Parse(sh.src)
			sh.do(fx, false)
			sigx, _ := fw.Try(func() {
				rs := decorator.NewRestorer()
				rs.Extras = true
				rs.RestoreFile(fx)
			})
			if sigx == "" {
				c.Violate("shared-node-accepted", "shared-node-accepted:extras:"+sh.name, "a tree with one node at two places ("+sh.name+") was restored without panic by a restorer with Extras set", sh.src)
			} else {
				c.Count("shared_rejected_with_extras", 1)
			}
			// clone in the second place: prints
			f2, _ := decorator.Parse(sh.src)
			sh.do(f2, true)
			out, perr := printFile(f2)
			if perr != "" {
				c.Violate("cloned-node-rejected", "cloned-node-rejected:"+sh.name, sh.name+": tree built from clones does not print: "+perr, sh.src)
			} else {
				c.Count("cloned_printed", 1)
				c.Nontrivial("share", sh.name, out)
			}
			c.Observe("shared_positions", sh.name)
		})
	}

	// (c1b) one node in two files of a package: the files are restored by one Restorer (as a package's
	// files are), the second restore must reject the node that was already emitted into the first file
	const twoSrc = "package p\n\nfunc a() {\n\tx := f(1)\n}\n\nvar v = 1\n"
	cross := []struct {
		name string
		do   func(f1, f2 *dst.File, cl bool)
	}{
		{"Decl in two files", func(f1, f2 *dst.File, cl bool) { f2.Decls = append(f2.Decls, pickNode(f1.Decls[1], cl).(dst.Decl)) }},
		{"Stmt in two files", func(f1, f2 *dst.File, cl bool) {
			b1, b2 := f1.Decls[0].(*dst.FuncDecl).Body, f2.Decls[0].(*dst.FuncDecl).Body
			b2.List = append(b2.List, pickNode(b1.List[0], cl).(dst.Stmt))
		}},
		{"Expr in two files", func(f1, f2 *dst.File, cl bool) {
			a1 := f1.Decls[0].(*dst.FuncDecl).Body.List[0].(*dst.AssignStmt)
			a2 := f2.Decls[0].(*dst.FuncDecl).Body.List[0].(*dst.AssignStmt)
			a2.Rhs[0] = pickNode(a1.Rhs[0], cl).(dst.Expr)
		}},
		{"Ident in two files", func(f1, f2 *dst.File, cl bool) {
			f2.Decls[0].(*dst.FuncDecl).Name = pickNode(f1.Decls[0].(*dst.FuncDecl).Name, cl).(*dst.Ident)
		}},
		{"FuncType in two files", func(f1, f2 *dst.File, cl bool) {
			f2.Decls[0].(*dst.FuncDecl).Type = pickNode(f1.Decls[0].(*dst.FuncDecl).Type, cl).(*dst.FuncType)
		}},
	}
	for i, sh := range cross {
		if !c.Mine(i) {
			continue
		}
		for _, entry := range []string{"RestoreFile", "Fprint", "RestoreFile+Extras", "FileRestorer.RestoreFile"} {
			c.Case("share-two-files:"+sh.name+"/"+entry, func() {
				run := func(cl bool) (string, string) {
					f1, err := decorator.Parse(twoSrc)
					if err != nil {
						panic(err)
					}
					f2, _ := decorator.Parse(twoSrc)
					sh.do(f1, f2, cl)
					rs := decorator.NewRestorer()
					var out bytes.Buffer
					var err2 error
					sig, _ := fw.Try(func() {
						switch entry {
						case "Fprint":
							if err2 = rs.Fprint(&out, f1); err2 == nil {
								err2 = rs.Fprint(&out, f2)
							}
						case "FileRestorer.RestoreFile":
							fr := rs.FileRestorer()
							if _, err2 = fr.RestoreFile(f1); err2 == nil {
								_, err2 = fr.RestoreFile(f2)
							}
						default:
							rs.Extras = entry == "RestoreFile+Extras"
							if _, err2 = rs.RestoreFile(f1); err2 == nil {
								_, err2 = rs.RestoreFile(f2)
							}
						}
					})
					if err2 != nil {
						return "", "error: " + err2.Error()
					}
					return out.String(), sig
				}
				if out, sig := run(false); sig == "" {
					c.Violate("shared-node-accepted", "shared-node-accepted:two-files:"+sh.name+":"+entry, "one node ("+sh.name+") occurs in two files restored by one Restorer ("+entry+") and the second restore did not panic:\n"+out, twoSrc)
				} else {
					c.Count("shared_rejected", 1)
				}
				if _, sig := run(true); sig != "" {
					c.Violate("cloned-node-rejected", "cloned-node-rejected:two-files:"+sh.name+":"+entry, sh.name+": two files, the second holding a clone, do not restore with one Restorer: "+sig, twoSrc)
				} else {
					c.Count("cloned_printed", 1)
					c.Nontrivial("share-two-files", sh.name, entry)
				}
				c.Observe("shared_positions", "two-files:"+sh.name)
			})
		}
	}

	// (c1c) the same through Package.Save: the files of one package are one tree for the purpose of
	// the rejection, whichever way they are restored
	for i, sh := range cross {
		if !c.Mine(i) {
			continue
		}
		c.Case("share-two-files:"+sh.name+"/Package.SaveWithResolver", func() {
			run := func(cl bool) string {
				dir := filepath.Join(c.WorkDir, fmt.Sprintf("c06save-%d-%v", i, cl))
				if os.MkdirAll(dir, 0755) != nil {
					return "setup"
				}
				defer os.RemoveAll(dir)
				d := decorator.NewDecorator(token.NewFileSet())
				pkg := &decorator.Package{Package: &packages.Package{PkgPath: "example.com/self"}, Decorator: d, Dir: dir}
				var fs []*dst.File
				for k := 0; k < 2; k++ {
					fn := filepath.Join(dir, fmt.Sprintf("f%d.go", k))
					if os.WriteFile(fn, []byte(twoSrc), 0644) != nil {
						return "setup"
					}
					f, err := d.ParseFile(fn, nil, parser.ParseComments)
					if err != nil {
						return "setup"
					}
					fs = append(fs, f)
				}
				sh.do(fs[0], fs[1], cl)
				pkg.Syntax = fs
				var err error
				sig, _ := fw.Try(func() { err = pkg.SaveWithResolver(simple.New(map[string]string{})) })
				if sig != "" {
					return sig
				}
				if err != nil {
					return "error: " + err.Error()
				}
				return ""
			}
			if res := run(false); res == "setup" {
				return
			} else if res == "" {
				c.Violate("shared-node-accepted", "shared-node-accepted:two-files:"+sh.name+":Package.Save", "one node ("+sh.name+") occurs in two files of a package and Package.SaveWithResolver wrote both files", twoSrc)
			} else {
				c.Count("shared_rejected", 1)
			}
			if res := run(true); res != "" && res != "setup" {
				c.Violate("cloned-node-rejected", "cloned-node-rejected:two-files:"+sh.name+":Package.Save", sh.name+": a package whose second file holds a clone does not save: "+res, twoSrc)
			} else if res == "" {
				c.Count("cloned_printed", 1)
				c.Nontrivial("share-two-files", sh.name, "Package.Save")
			}
		})
	}

	// (c2) sharing under import management: a path-carrying identifier is restored through the
	// hand-written selector path
	impShare := []struct {
		name string
		do   func(f *dst.File, clone bool)
	}{
		{"qualified Ident in two call statements", func(f *dst.File, cl bool) {
			b := f.Decls[1].(*dst.FuncDecl).Body
			id := b.List[0].(*dst.ExprStmt).X.(*dst.CallExpr).Fun
			b.List = append(b.List, &dst.ExprStmt{X: &dst.CallExpr{Fun: pickNode(id, cl).(dst.Expr)}})
		}},
		{"qualified Ident as argument twice", func(f *dst.File, cl bool) {
			b := f.Decls[1].(*dst.FuncDecl).Body
			ce := b.List[1].(*dst.ExprStmt).X.(*dst.CallExpr)
			ce.Args = append(ce.Args, pickNode(ce.Args[0], cl).(dst.Expr))
		}},
		{"alias Ident shared by two import specs (one of them renamed at restore)", func(f *dst.File, cl bool) {
			gd := f.Decls[0].(*dst.GenDecl)
			id := dst.NewIdent("al")
			gd.Specs[0].(*dst.ImportSpec).Name = id
			gd.Lparen, gd.Rparen = true, true
			gd.Specs = append(gd.Specs, &dst.ImportSpec{Name: pickNode(id, cl).(*dst.Ident), Path: &dst.BasicLit{Kind: token.STRING, Value: "\"x/dot\""}})
			b := f.Decls[1].(*dst.FuncDecl).Body
			b.List = append(b.List, &dst.ExprStmt{X: &dst.CallExpr{Fun: &dst.Ident{Name: "Dotted", Path: "x/dot"}}})
		}},
		{"dot-imported Ident twice", func(f *dst.File, cl bool) {
			b := f.Decls[1].(*dst.FuncDecl).Body
			id := &dst.Ident{Name: "Dotted", Path: "x/dot"}
			b.List = append(b.List, &dst.ExprStmt{X: &dst.CallExpr{Fun: id}}, &dst.ExprStmt{X: &dst.CallExpr{Fun: pickNode(id, cl).(dst.Expr)}})
		}},
	}
	for i, sh := range impShare {
		if !c.Mine(i) {
			continue
		}
		c.Case("share-imports:"+sh.name, func() {
			src := "package p\n\nimport \"x/pk\"\n\nfunc f() {\n\tpk.A()\n\tg(pk.B)\n}\n"
			build := func(cl bool) *dst.File {
				d := decorator.NewDecoratorWithImports(token.NewFileSet(), "x/self", goast.WithResolver(simple.New(map[string]string{"x/pk": "pk", "x/dot": "dot"})))
				f, err := d.Parse(src)
				if err != nil {
					panic(err)
				}
				sh.do(f, cl)
				return f
			}
			restore := func(f *dst.File) (string, string) {
				r := decorator.NewRestorerWithImports("x/self", simple.New(map[string]string{"x/pk": "pk", "x/dot": "dot"}))
				fr := r.FileRestorer()
				fr.Alias["x/dot"] = "."
				var buf bytes.Buffer
				var err error
				if sig, _ := fw.Try(func() { err = fr.Fprint(&buf, f) }); sig != "" {
					return "", sig
				}
				if err != nil {
					return "", "error: " + err.Error()
				}
				return buf.String(), ""
			}
			if out, perr := restore(build(false)); perr == "" {
				c.Violate("shared-node-accepted", "shared-node-accepted:imports:"+sh.name, "a tree with one path-carrying identifier at two places was restored without panic:\n"+out, src)
			} else {
				c.Count("shared_rejected", 1)
			}
			if out, perr := restore(build(true)); perr != "" {
				c.Violate("cloned-node-rejected", "cloned-node-rejected:imports:"+sh.name, perr, src)
			} else {
				c.Count("cloned_printed", 1)
				c.Nontrivial("share-imports", sh.name, out)
			}
			c.Observe("shared_positions", "imports:"+sh.name)
		})
	}

	for f := range fields {
		c.Observe("nonzero_fields", f)
		c.Nontrivial("field", f)
	}
	// coverage of (type, field) pairs is checked in the driver through Required? Done here per
	// shard would be wrong (each shard sees a part); the union is reported as n_nonzero_fields and
	// the full list size as a counter.
	if c.Shard == 0 {
		c.Count("fields_total", int64(len(all)))
	}
}

func pickNode(n dst.Node, clone bool) dst.Node {
	if clone {
		return dst.Clone(n)
	}
	return n
}
