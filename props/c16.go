package props

import (
	"bytes"
	"fmt"
	"github.com/dave/dst/decorator/resolver/gobuild"
	"go/ast"
	"go/build"
	"go/format"
	"go/parser"
	"go/token"
	"hash/fnv"
	"math/rand"
	"runtime"
	"sort"
	"strings"
	"sync"
	"sync/atomic"
	"time"

	"github.com/dave/dst"
	"github.com/dave/dst/decorator"
	"github.com/dave/dst/decorator/resolver/goast"
	"github.com/dave/dst/decorator/resolver/guess"
	"github.com/dave/dst/decorator/resolver/simple"
	"github.com/dave/dst/verifhook"

	"verif/internal/corpus"
	"verif/internal/fw"
	"verif/internal/refl"
)

func init() {
	fw.Register(&fw.Check{
		ID:    "C16",
		Level: "exploration",
		Rule: "cases: rounds of G in {2,8,32,128} goroutines, each with its own FileSet, Decorator and Restorer, running mixed operations (Parse, DecorateFile with import resolution, " +
			"RestoreFile, Fprint with import management, Clone, dense decoration) over few distinct corpus files (so the shared goast import cache is both missed and hit) while sharing " +
			"one goast.New() (lazy default resolver), one goast.WithResolver(map), one guess map, one simple map and one gobuild resolver (stateless FindPackage hook, partial hints, no explicit context). The whole workload runs in a binary built with -race " +
			"(GORACE halt_on_error=0, log_path); the verifhook.Point handler yields or sleeps a seeded few microseconds outside the resolver's lock. Monitors: race-detector reports " +
			"(counted from the log, de-duplicated by the pair of innermost dave/dst frames) - any report is a violation; each concurrent result (bytes, decorated tree by reflection " +
			"deep-equality, error text) equals the result of the same call made alone beforehand; every call repeated in fresh decorators/restorers gives identical bytes (map iteration " +
			"order varies between repetitions), and groups of three files decorated together as one *ast.Package give, in every repetition, the result of decorating each file alone. distinct_nontrivial = distinct (round, goroutine, file, operation) results compared in rounds where at least two goroutines were inside the " +
			"shared resolver at the same time.",
		Floor:  10,
		Run:    runC16,
		Serial: true,
		Race:   true,
		Assumptions: []string{
			"the Go race detector only reports races on executions that actually happen; the schedules explored are those the runtime produced under the injected yields",
			"positions of detached object declarations (Extras) are not part of the compared results",
		},
		Required: map[string]int{"goroutine_counts": 3},
	})
}

func goid() int64 {
	var buf [64]byte
	n := runtime.Stack(buf[:], false)
	// "goroutine 123 ["
	s := string(buf[:n])
	s = strings.TrimPrefix(s, "goroutine ")
	var id int64
	for i := 0; i < len(s) && s[i] >= '0' && s[i] <= '9'; i++ {
		id = id*10 + int64(s[i]-'0')
	}
	return id
}

type c16Ref struct {
	name    string
	src     []byte
	plain   string // Parse+Fprint
	imp     string // decorate with goast(map) + restore with imports
	impErr  string
	lazy    string // the same with goast.New() (lazy guess default)
	lazyErr string
	tree    *dst.File
	dense   string
}

var c16Names = map[string]string{"math/rand/v2": "rand", "gopkg.in/yaml.v2": "yaml", "a/x/chi/v5": "chi"}

var c16NamesWant = fmt.Sprintf("%v", c16Names)

func c16Imports(src []byte, shared *goast.DecoratorResolver, rr interface {
	ResolvePackage(string) (string, error)
}) (string, *dst.File, error) {
	fset := token.NewFileSet()
	af, err := parser.ParseFile(fset, "f.go", src, parser.ParseComments)
	if err != nil {
		return "", nil, err
	}
	d := decorator.NewDecoratorWithImports(fset, "example.com/self", shared)
	df, err := d.DecorateFile(af)
	if err != nil {
		return "", nil, err
	}
	dst.Inspect(df, func(n dst.Node) bool {
		if id, ok := n.(*dst.Ident); ok && id.Name == "c16AddedRef" {
			id.Name, id.Path = "Info", "x.com/app/log" // a package whose name clashes with an existing import
		}
		if id, ok := n.(*dst.Ident); ok && id.Name == "c16AddedChi" {
			id.Name, id.Path = "NewRouter", "a/x/chi/v5" // same name as a/x/chi, of which it is a sub-path
		}
		return true
	})
	keep := dst.Clone(df).(*dst.File)
	r := decorator.NewRestorerWithImports("example.com/self", rr)
	var buf bytes.Buffer
	if err := r.Fprint(&buf, df); err != nil {
		return "", keep, err
	}
	return buf.String(), keep, nil
}

func c16Dense(src []byte) (string, error) {
	f, err := decorator.Parse(src)
	if err != nil {
		return "", err
	}
	k := 0
	decorateAll(f, func(n dst.Node, point string) string {
		k++
		return fmt.Sprintf("/*%d*/", k)
	})
	cl := dst.Clone(f).(*dst.File)
	var buf bytes.Buffer
	if err := decorator.Fprint(&buf, cl); err != nil {
		return "", err
	}
	return buf.String(), nil
}

func runC16(c *fw.Ctx) {
	r := c.Rand("files")
	var refs []*c16Ref
	guessMap := guess.WithMap(c16Names)
	for _, p := range corpus.Sample(r, 400) {
		src := readFile(p)
		if src == nil || len(src) > 30000 || len(src) < 600 || !bytes.Contains(src, []byte("import")) {
			continue
		}
		ref := &c16Ref{name: corpus.Rel(p), src: src}
		var err error
		if ref.plain, err = func() (string, error) { b, e := rtParsePrint(src); return string(b), e }(); err != nil {
			continue
		}
		out, tree, err := c16Imports(src, goast.WithResolver(guessMap), guessMap)
		ref.imp, ref.tree = out, tree
		if err != nil {
			ref.impErr = err.Error()
		}
		if ref.dense, err = c16Dense(src); err != nil {
			continue
		}
		c16Lazy(ref, guessMap)
		refs = append(refs, ref)
		if len(refs) >= c.Pick(10, 24) {
			break
		}
	}
	// a resolver over a caller's table is read-only: the table is as it was
	if got := fmt.Sprintf("%v", c16Names); got != c16NamesWant {
		c.Violate("shared-resolver-modified", "shared-resolver-modified:guess:sequential", "the name table handed to guess.WithMap changed while files were decorated and restored one after the other: "+got, "")
	}
	// a synthetic file whose imports clash by name (exercises the map-ordered rename logic) and
	// one with a dot-import (resolver error path)
	clash := "package p\n\nimport (\n\t\"a/x/log\"\n\t\"b/y/log\"\n\tlog2 \"c/log\"\n\t\"fmt\"\n)\n\nfunc f() {\n\tlog.A()\n\tlog.B()\n\tlog2.C()\n\tfmt.Println()\n}\n"
	dot := "package p\n\nimport (\n\t. \"fmt\"\n\t\"os\"\n)\n\nfunc f() {\n\tPrintln(os.Args)\n}\n"
	// conflicting names next to nameless (blank / dot-free) imports, and a reference to a package that
	// is not imported yet (the restorer has to add it and resolve the clash)
	clashBlank := "package p\n\nimport (\n\t_ \"embed\"\n\t\"log\"\n\t_ \"net/http/pprof\"\n\tlog3 \"z/log\"\n)\n\nfunc f() {\n\tlog.A()\n\tlog3.B()\n\tc16AddedRef()\n}\n"
	// multi-line raw strings and block comments (their line offsets are recorded relative to the
	// file the restorer registers)
	raw := "package p\n\nimport \"fmt\"\n\n/*\nblock\ncomment\n*/\nvar s = `line1\nline2\nline3`\n\nfunc f() {\n\tfmt.Println(`a\nb`, s) /* x\n\ty */\n}\n"
	// two packages of one name whose paths are a directory and a sub-directory of it; one of the
	// references is added after decoration, so the restorer has to add the import and rename
	parentChild := "package p\n\nimport (\n\t\"a/x/chi\"\n\t\"fmt\"\n)\n\nfunc f() {\n\tchi.A()\n\tfmt.Println()\n\tc16AddedChi()\n}\n"
	for _, s := range []struct{ n, s string }{{"synthetic/clash", clash}, {"synthetic/dot", dot}, {"synthetic/clash-with-blank", clashBlank}, {"synthetic/clash-parent-child", parentChild}, {"synthetic/raw-strings", raw},
		// qualified identifiers that carry decorations of their own (merged into one identifier under
		// import management), twice with different comment texts
		{"synthetic/qualified-decorations-1", layoutZoo()["qualified-identifier-comments"]},
		{"synthetic/qualified-decorations-2", strings.NewReplacer("// why", "// second file: why", "/* blk */", "/* second file */", "// own line", "// second file: own line", "// after", "// second file: after").Replace(layoutZoo()["qualified-identifier-comments"])}} {
		ref := &c16Ref{name: s.n, src: []byte(s.s)}
		b, _ := rtParsePrint(ref.src)
		ref.plain = string(b)
		out, tree, err := c16Imports(ref.src, goast.WithResolver(guessMap), guessMap)
		ref.imp, ref.tree = out, tree
		if err != nil {
			ref.impErr = err.Error()
		}
		ref.dense, _ = c16Dense(ref.src)
		c16Lazy(ref, guessMap)
		refs = append(refs, ref)
	}

	var synth []*c16Ref
	for _, rf := range refs {
		if strings.HasPrefix(rf.name, "synthetic/") {
			synth = append(synth, rf)
		}
	}
	// hook handler: overlap counting, interleaving hashing, yields
	var inResolver, maxOverlap, events int64
	var hits, misses int64
	var hmu sync.Mutex
	ilv := fnv.New64a()
	var yieldSeed int64 = c.Seed
	hookHandler := &verifhook.Handler{Point: func(name string) {
		n := atomic.AddInt64(&events, 1)
		switch name {
		case "goast.ResolveIdent":
			v := atomic.AddInt64(&inResolver, 1)
			for {
				m := atomic.LoadInt64(&maxOverlap)
				if v <= m || atomic.CompareAndSwapInt64(&maxOverlap, m, v) {
					break
				}
			}
			// perturb the schedule outside the lock
			x := (n*6364136223846793005 + yieldSeed) >> 33
			switch {
			case x%61 == 0:
				time.Sleep(time.Duration(x%7) * time.Microsecond)
			case x%5 == 0:
				runtime.Gosched()
			}
		case "goast.imports.locked":
			atomic.AddInt64(&inResolver, -1)
			atomic.AddInt64(&hits, 1)
		case "goast.imports.miss":
			atomic.AddInt64(&misses, 1)
			atomic.AddInt64(&hits, -1)
		}
		if name != "goast.ResolveIdent" && name != "goast.imports.locked" && n < 400000 {
			g := goid()
			hmu.Lock()
			fmt.Fprintf(ilv, "%d:%s;", g, name)
			hmu.Unlock()
		}
	}}
	verifhook.Set(hookHandler)
	defer verifhook.Set(nil)

	abandoned := false
	rounds := c.Pick(8, 60)
	gcounts := []int{2, 8, 32, 128}
	interleavings := map[uint64]bool{}
	for round := 0; round < rounds; round++ {
		G := gcounts[round%len(gcounts)]
		if c.Quick() && G == 128 {
			G = 32
		}
		id := fmt.Sprintf("round:%d/G=%d", round, G)
		if abandoned {
			break
		}
		c.Case(id, func() {
			c.Observe("goroutine_counts", fmt.Sprint(G))
			// every fourth round runs without the hook (its counters are atomics, which order the
			// goroutines for the race detector) and with a resolver per goroutine where one is not
			// needed: nothing but the library's own synchronisation orders the calls
			quiet := round%4 == 3
			if quiet {
				verifhook.Set(nil)
				defer verifhook.Set(hookHandler)
				c.Count("rounds_without_hook", 1)
			}
			// a guess resolver of the round's own over a fresh copy of the name table (one shared
			// value for all goroutines of the round: nothing it has seen before)
			roundNames := map[string]string{}
			for _, k := range []string{"math/rand/v2", "gopkg.in/yaml.v2", "a/x/chi/v5"} {
				roundNames[k] = c16Names[k]
			}
			guessMap := guess.WithMap(roundNames)
			sharedLazy := goast.New()
			sharedMap := goast.WithResolver(guessMap)
			simpleMap := simple.New(map[string]string{})
			_ = simpleMap
			// a read-only package-name resolver of the build-context kind, shared by every goroutine
			// of the round: a stateless FindPackage hook (names as the guessing resolver gives them),
			// hints for only some paths, no explicit Context
			sharedBuild := &gobuild.RestorerResolver{
				Dir:   "/",
				Hints: map[string]string{"fmt": "fmt", "gopkg.in/yaml.v2": "yaml"},
				FindPackage: func(ctxt *build.Context, importPath, fromDir string, mode build.ImportMode) (*build.Package, error) {
					n, err := guessMap.ResolvePackage(importPath)
					if err != nil {
						return nil, err
					}
					return &build.Package{Name: n}, nil
				},
			}
			sharedBuildGoast := goast.WithResolver(sharedBuild)
			atomic.StoreInt64(&maxOverlap, 0)
			hmu.Lock()
			ilv.Reset()
			hmu.Unlock()
			type result struct {
				g    int
				ref  *c16Ref
				op   string
				out  string
				err  string
				tree *dst.File
			}
			results := make([][]result, G)
			// read-only resolvers must come out of the round as they went in
			buildBefore := fmt.Sprintf("ctx=%p hints=%v dir=%q", sharedBuild.Context, sharedBuild.Hints, sharedBuild.Dir)
			guessBefore := fmt.Sprintf("%v", map[string]string(guessMap))
			// trees decorated beforehand, one private copy per goroutine: the first thing a goroutine
			// does is restore its copy through the shared build-context resolver, with nothing
			// (no shared lock) ordering it against the other goroutines
			pre := make([]*dst.File, G)
			preRef := make([]*c16Ref, G)
			for g := 0; g < G; g++ {
				if rf := refs[(g+round)%len(refs)]; rf.tree != nil && rf.impErr == "" {
					pre[g] = dst.Clone(rf.tree).(*dst.File)
					preRef[g] = rf
				}
			}
			var wg sync.WaitGroup
			start := make(chan struct{})
			opsPer := c.Pick(6, 10)
			for g := 0; g < G; g++ {
				wg.Add(1)
				go func(g int) {
					defer wg.Done()
					gr := rand.New(rand.NewSource(c.Seed*1000003 + int64(round)*7919 + int64(g)))
					<-start
					if pre[g] != nil {
						res := result{g: g, ref: preRef[g], op: "imports/restore-only-shared-gobuild"}
						var buf bytes.Buffer
						if err := decorator.NewRestorerWithImports("example.com/self", sharedBuild).Fprint(&buf, pre[g]); err != nil {
							res.err = err.Error()
						}
						res.out = buf.String()
						results[g] = append(results[g], res)
					}
					for k := 0; k < opsPer; k++ {
						ref := refs[gr.Intn(len(refs))]
						if round%2 == 1 && len(synth) > 0 {
							// every other round works on the synthetic files only (name clashes, raw
							// strings, decorated qualified identifiers): the rare paths are then taken
							// by many goroutines at once
							ref = synth[gr.Intn(len(synth))]
						}
						res := result{g: g, ref: ref}
						switch gr.Intn(8) {
						case 7:
							// a worker of the goroutine's own: one FileRestorer restores three files first
							// and prints them only afterwards
							res.op = "Parse+RestoreFile/own-file-restorer-restores-three-then-prints"
							fr := decorator.NewRestorer().FileRestorer()
							var afs []*ast.File
							var rfs []*c16Ref
							for j := 0; j < 3; j++ {
								rf := refs[(gr.Intn(len(refs))+j)%len(refs)]
								f, err := decorator.Parse(rf.src)
								if err != nil {
									res.err = err.Error()
									break
								}
								fr.Name = rf.name
								var af *ast.File
								var rerr error
								if sig, _ := fw.Try(func() { af, rerr = fr.RestoreFile(f) }); sig != "" {
									res.err = sig
									break
								}
								if rerr != nil {
									res.err = rerr.Error()
									break
								}
								afs = append(afs, af)
								rfs = append(rfs, rf)
							}
							for j, af := range afs {
								var b bytes.Buffer
								if err := format.Node(&b, fr.Fset, af); err != nil {
									res.err = err.Error()
									break
								}
								if b.String() != rfs[j].plain {
									res.err = "file " + rfs[j].name + " restored with two others by the goroutine's file restorer and printed afterwards differs from the same file printed alone"
									break
								}
							}
							res.out = "sequence-ok"
						case 6:
							// one restorer of the goroutine's own prints three files in turn
							res.op = "Parse+Fprint/own-restorer-for-three-files"
							own := decorator.NewRestorer()
							var sb strings.Builder
							for j := 0; j < 3; j++ {
								rf := refs[(gr.Intn(len(refs))+j)%len(refs)]
								if j == 1 {
									rf = refs[len(refs)-1] // the raw-string file is never the first one
								}
								f, err := decorator.Parse(rf.src)
								if err != nil {
									res.err = err.Error()
									break
								}
								var b bytes.Buffer
								var perr error
								if sig, _ := fw.Try(func() { perr = own.Fprint(&b, f) }); sig != "" {
									res.err = sig
									break
								}
								if perr != nil {
									res.err = perr.Error()
									break
								}
								if b.String() != rf.plain {
									res.err = "file " + rf.name + " printed third-hand by the goroutine's restorer differs from the same file printed alone"
									break
								}
								sb.WriteString(b.String())
							}
							_ = sb
							res.out = "sequence-ok"
						case 5:
							res.op = "imports/shared-gobuild"
							out, tree, err := c16Imports(ref.src, sharedBuildGoast, sharedBuild)
							res.out, res.tree = out, tree
							if err != nil {
								res.err = err.Error()
							}
						case 0:
							res.op = "Parse+Fprint"
							b, err := rtParsePrint(ref.src)
							res.out = string(b)
							if err != nil {
								res.err = err.Error()
							}
						case 1, 2:
							res.op = "imports/shared-goast-map"
							shared := sharedMap
							if quiet {
								shared = goast.WithResolver(guess.WithMap(map[string]string{"math/rand/v2": "rand", "gopkg.in/yaml.v2": "yaml", "a/x/chi/v5": "chi"}))
							}
							out, tree, err := c16Imports(ref.src, shared, guessMap)
							res.out, res.tree = out, tree
							if err != nil {
								res.err = err.Error()
							}
						case 3:
							res.op = "imports/shared-goast-lazy-default"
							out, tree, err := c16Imports(ref.src, sharedLazy, guessMap)
							res.out, res.tree = out, tree
							if err != nil {
								res.err = err.Error()
							}
						case 4:
							res.op = "dense+Clone+Fprint"
							out, err := c16Dense(ref.src)
							res.out = out
							if err != nil {
								res.err = err.Error()
							}
						}
						results[g] = append(results[g], res)
					}
				}(g)
			}
			close(start)
			finished := make(chan struct{})
			go func() { wg.Wait(); close(finished) }()
			select {
			case <-finished:
			case <-time.After(time.Duration(c.Pick(90, 300)) * time.Second):
				// No verdict from the clock alone: look at the runtime state. A goroutine of this
				// round that sits in sync.(*Mutex).Lock under a dave/dst frame while no hook event
				// has been produced for a further interval and no goroutine is inside the critical
				// section is blocked for good (the lock was left held): every call queued behind it
				// will never return, let alone "equal the call made alone".
				ev0 := atomic.LoadInt64(&events)
				dump0 := goroutineDump()
				time.Sleep(5 * time.Second)
				ev1 := atomic.LoadInt64(&events)
				dump1 := goroutineDump()
				b0, b1 := blockedInDstLock(dump0), blockedInDstLock(dump1)
				if ev0 == ev1 && len(b1) > 0 && len(b0) == len(b1) && !strings.Contains(dump1, "goast.(*DecoratorResolver).imports.func") {
					c.Violate("blocked-forever", "blocked-forever:"+b1[0], fmt.Sprintf("%s: %d goroutine(s) are blocked in a dave/dst lock and nothing makes progress (no hook event in 5 s, nobody inside the critical section); first blocked stack:\n%s", id, len(b1), firstBlockedStack(dump1)), "")
				} else {
					c.Count("inconclusive_round_did_not_finish", 1)
				}
				abandoned = true
				return
			}
			if after := fmt.Sprintf("ctx=%p hints=%v dir=%q", sharedBuild.Context, sharedBuild.Hints, sharedBuild.Dir); after != buildBefore {
				c.Violate("shared-resolver-modified", "shared-resolver-modified:gobuild", fmt.Sprintf("%s: the shared gobuild resolver was %s before the round and is %s after it", id, buildBefore, after), "")
			}
			if after := fmt.Sprintf("%v", map[string]string(guessMap)); after != guessBefore {
				c.Violate("shared-resolver-modified", "shared-resolver-modified:guess", id+": the shared guess map changed during the round", "")
			}
			overlap := atomic.LoadInt64(&maxOverlap)
			c.Max("overlapping_resolver_calls", overlap)
			hmu.Lock()
			interleavings[ilv.Sum64()] = true
			hmu.Unlock()
			// compare with the sequential references
			for g := range results {
				for k, res := range results[g] {
					want, wantErr := "", ""
					switch {
					case res.op == "Parse+Fprint":
						want = res.ref.plain
					case res.op == "Parse+Fprint/own-restorer-for-three-files", res.op == "Parse+RestoreFile/own-file-restorer-restores-three-then-prints":
						want, wantErr = "sequence-ok", ""
					case strings.HasPrefix(res.op, "imports/"):
						want, wantErr = res.ref.imp, res.ref.impErr
						if res.op == "imports/shared-goast-lazy-default" {
							want, wantErr = res.ref.lazy, res.ref.lazyErr
						}
					default:
						want = res.ref.dense
					}
					c.Count("results_compared", 1)
					c.Count("op:"+res.op, 1)
					if res.out != want || res.err != wantErr {
						c.Violate("differs-from-sequential", "differs-from-sequential:"+res.op, fmt.Sprintf("%s goroutine %d op %d (%s on %s): concurrent result differs from the call made alone (err %q vs %q)", id, g, k, res.op, res.ref.name, res.err, wantErr), string(res.ref.src))
					}
					if res.tree != nil && res.ref.tree != nil && res.op == "imports/shared-goast-map" {
						if dd := refl.DeepEqualDst(res.tree, res.ref.tree); dd != "" {
							c.Violate("tree-differs-from-sequential", "tree-differs-from-sequential", id+": "+dd, string(res.ref.src))
						}
					}
					if overlap >= 2 {
						c.Nontrivial(id, fmt.Sprint(g, k), res.ref.name, res.op)
					}
				}
			}
			if round < 2 {
				c.Sample(map[string]interface{}{"case": id, "goroutines": G, "ops_per_goroutine": opsPer, "max_overlapping_resolver_calls": overlap, "files": len(refs)})
			}
		})
	}
	c.Count("cache_hits", atomic.LoadInt64(&hits))
	c.Count("cache_misses", atomic.LoadInt64(&misses))
	c.Count("hook_events", atomic.LoadInt64(&events))
	c.Count("distinct_interleavings", int64(len(interleavings)))

	if abandoned {
		return
	}
	// determinism under map iteration order: equal calls in fresh decorators / restorers
	for i, ref := range refs {
		id := "repeat:" + ref.name
		c.Case(id, func() {
			outs := map[string]int{}
			n := c.Pick(8, 20)
			if strings.HasPrefix(ref.name, "synthetic/") {
				n = c.Pick(48, 120) // map-order dependent renames show in roughly one run out of eight
			}
			for k := 0; k < n; k++ {
				out, _, err := c16Imports(ref.src, goast.WithResolver(guessMap), guessMap)
				if err != nil {
					out = "error: " + err.Error()
				}
				outs[out]++
				// Extras: object / scope restoration iterates maps as well
				f, perr := decorator.Parse(ref.src)
				if perr == nil {
					rs := decorator.NewRestorer()
					rs.Extras = true
					var b bytes.Buffer
					if e := rs.Fprint(&b, f); e == nil {
						outs["extras:"+b.String()] += 0
					}
				}
			}
			keys := 0
			extras := 0
			for k := range outs {
				if strings.HasPrefix(k, "extras:") {
					extras++
				} else {
					keys++
				}
			}
			if keys != 1 || extras > 1 {
				var ks []string
				for k := range outs {
					ks = append(ks, k[:minInt(len(k), 300)])
				}
				sort.Strings(ks)
				c.Violate("nondeterministic", "nondeterministic", fmt.Sprintf("%s: %d repetitions gave %d distinct outputs (+%d extras variants)", id, n, keys, extras), string(ref.src))
			}
			c.Count("repetitions", int64(n))
			_ = i
		})
	}
	// the same for several files decorated together as one *ast.Package (its Files map is iterated
	// in random order): every repetition gives, for every file, the result of decorating it alone
	var psrcs [][]byte
	for _, ref := range refs {
		psrcs = append(psrcs, ref.src)
	}
	psrcs = append(psrcs,
		[]byte("package p\n\n// header, detached\n\nfunc a() {}\n\n// trailing comment of a.go\n"),
		[]byte("// Package p doc.\npackage p\n\nfunc b() {\n\t// hanging\n}\n\n/* trailing block of b.go */\n"),
		[]byte("package p\n\nvar c = 1 // c\n\n// last words of c.go\n"),
		// import tables that differ between the files of one package
		[]byte("package p\n\nimport \"html/template\"\n\nvar T1 template.HTML\n"),
		[]byte("package p\n\nimport \"text/template\"\n\nvar T2 *template.Template\n"),
		[]byte("package p\n\nimport (\n\trand \"crypto/rand\"\n\t\"os\"\n)\n\nvar R = rand.Reader\n\nvar A = os.Args\n"))
	for g := 0; g+2 < len(psrcs); g += 3 {
		id := fmt.Sprintf("repeat-package:%d", g/3)
		group := psrcs[g : g+3]
		c.Case(id, func() {
			alone := map[string]string{}
			for k, src := range group {
				f, err := decorator.Parse(src)
				if err != nil {
					return
				}
				var b bytes.Buffer
				if err := decorator.Fprint(&b, f); err != nil {
					return
				}
				alone[fmt.Sprintf("f%d.go", k)] = b.String()
			}
			n := c.Pick(16, 150)
			for rep := 0; rep < n; rep++ {
				fset := token.NewFileSet()
				pkg := &ast.Package{Name: "p", Files: map[string]*ast.File{}}
				for k, src := range group {
					name := fmt.Sprintf("f%d.go", k)
					af, err := parser.ParseFile(fset, name, src, parser.ParseComments)
					if err != nil {
						return
					}
					pkg.Files[name] = af
				}
				dn, err := decorator.NewDecorator(fset).DecorateNode(pkg)
				if err != nil {
					c.Violate("package-decoration-error", "package-decoration-error", id+": "+err.Error(), "")
					return
				}
				for name, df := range dn.(*dst.Package).Files {
					var b bytes.Buffer
					if err := decorator.Fprint(&b, df); err != nil {
						c.Violate("nondeterministic", "nondeterministic:package-print-error", fmt.Sprintf("%s repetition %d: %s: %v", id, rep, name, err), alone[name])
						return
					}
					if b.String() != alone[name] {
						c.Violate("nondeterministic", "nondeterministic:package-decoration", fmt.Sprintf("%s repetition %d: %s decorated as part of the package differs from the file decorated alone:\n%s", id, rep, name, b.String()), alone[name])
						return
					}
				}
			}
			c.Count("package_repetitions", int64(n))
			c.Nontrivial(id)
			// the same with import resolution: every file is resolved against its own imports,
			// whatever the order in which the files of the package are visited
			aloneImp := map[string]string{}
			for k, src := range group {
				fset := token.NewFileSet()
				af, err := parser.ParseFile(fset, "f.go", src, parser.ParseComments)
				if err != nil {
					return
				}
				df, err := decorator.NewDecoratorWithImports(fset, "example.com/self", goast.WithResolver(guessMap)).DecorateFile(af)
				if err != nil {
					return // a file the syntax-based resolver refuses (dot-import)
				}
				var b bytes.Buffer
				if err := decorator.NewRestorerWithImports("example.com/self", guessMap).Fprint(&b, df); err != nil {
					return
				}
				aloneImp[fmt.Sprintf("f%d.go", k)] = b.String()
			}
			for rep := 0; rep < n; rep++ {
				fset := token.NewFileSet()
				pkg := &ast.Package{Name: "p", Files: map[string]*ast.File{}}
				for k, src := range group {
					name := fmt.Sprintf("f%d.go", k)
					af, err := parser.ParseFile(fset, name, src, parser.ParseComments)
					if err != nil {
						return
					}
					pkg.Files[name] = af
				}
				dn, err := decorator.NewDecoratorWithImports(fset, "example.com/self", goast.WithResolver(guessMap)).DecorateNode(pkg)
				if err != nil {
					c.Violate("package-decoration-error", "package-decoration-error:imports", id+": "+err.Error(), "")
					return
				}
				for name, df := range dn.(*dst.Package).Files {
					var b bytes.Buffer
					if err := decorator.NewRestorerWithImports("example.com/self", guessMap).Fprint(&b, df); err != nil {
						c.Violate("nondeterministic", "nondeterministic:package-print-error:imports", fmt.Sprintf("%s repetition %d: %s: %v", id, rep, name, err), aloneImp[name])
						return
					}
					if b.String() != aloneImp[name] {
						c.Violate("nondeterministic", "nondeterministic:package-decoration:imports", fmt.Sprintf("%s repetition %d: %s decorated with import resolution as part of the package differs from the file decorated alone:\n%s", id, rep, name, b.String()), aloneImp[name])
						return
					}
				}
			}
			c.Count("package_repetitions_with_imports", int64(n))
		})
	}
}

func minInt(a, b int) int {
	if a < b {
		return a
	}
	return b
}

func c16Lazy(ref *c16Ref, rr guess.RestorerResolver) {
	out, _, err := c16Imports(ref.src, goast.New(), rr)
	ref.lazy = out
	if err != nil {
		ref.lazyErr = err.Error()
	}
}

func goroutineDump() string {
	buf := make([]byte, 8<<20)
	n := runtime.Stack(buf, true)
	return string(buf[:n])
}

// blockedInDstLock returns the innermost dave/dst function of every goroutine that is waiting in
// sync.(*Mutex).Lock below a dave/dst frame.
func blockedInDstLock(dump string) []string {
	var out []string
	for _, g := range strings.Split(dump, "\n\n") {
		if !strings.Contains(g, "sync.(*Mutex).Lock") || !strings.Contains(g, "github.com/dave/dst") {
			continue
		}
		fn := ""
		for _, l := range strings.Split(g, "\n") {
			if strings.HasPrefix(l, "github.com/dave/dst") {
				fn = l
				if i := strings.Index(fn, "("); i > 0 {
					// keep receiver type, drop arguments
					if j := strings.LastIndex(fn, "("); j > i {
						fn = fn[:j]
					}
				}
				break
			}
		}
		out = append(out, strings.TrimPrefix(fn, "github.com/dave/dst"))
	}
	sort.Strings(out)
	return out
}

func firstBlockedStack(dump string) string {
	for _, g := range strings.Split(dump, "\n\n") {
		if strings.Contains(g, "sync.(*Mutex).Lock") && strings.Contains(g, "github.com/dave/dst") {
			if len(g) > 1800 {
				g = g[:1800]
			}
			return g
		}
	}
	return ""
}
