package props

import (
	"bytes"
	"fmt"
	"go/format"
	"go/token"
	"io"
	"reflect"
	"strings"
	"sync"

	"github.com/dave/dst"
	"github.com/dave/dst/decorator"
	"github.com/dave/dst/decorator/resolver/goast"
	"github.com/dave/dst/decorator/resolver/simple"

	"verif/internal/fw"
	"verif/internal/obs"
)

func init() {
	fw.Register(&fw.Check{
		ID:    "C05",
		Level: "exploration",
		Rule: "cases: for each of 14 list kinds (multi-line raw string elements, parameter and result lists, block statements, statements of mixed kinds, bare break / continue statements, bare blocks, case-clause bodies, composite-literal elements, call arguments, struct fields, parenthesised value specs, and composite-literal elements / call arguments that are package-qualified identifiers restored with import management) and n = 1..3 " +
			"elements (n = 4 and seeded longer lists in the thorough tier), EVERY assignment of None/NewLine/EmptyLine to Before/After of every element (3^(2n), exhaustive), combined with " +
			"each comment pattern: none, End line comment, Start line comment, End \"\\n\", End \"\\n\\n\", End line comment + Start line comment. Reference model written from the " +
			"statement: adjacent After/Before combine by max; one blank line iff that max is EmptyLine (or two explicit \"\\n\" decorations were given), none otherwise; Before of the first " +
			"/ After of the last decide the blank line at the delimiters (list kinds where gofmt keeps edge blank lines); a line comment or one \"\\n\" neither adds nor removes a blank " +
			"line; on expression lists an element starts a new line iff the combined spacing is at least NewLine. The observed skeleton (line numbers of every element token and comment) " +
			"is read from the output with go/scanner. distinct_nontrivial = distinct (kind, n, pattern, assignment) cases with at least one non-None spacing.",
		Floor: 60,
		Run:   runC05,
		Assumptions: []string{
			"top-level declarations are excluded: go/printer forces blank lines between declarations of different kinds regardless of positions",
			"struct fields and parenthesised specs: gofmt strips blank lines directly after '{'/'(' and before '}'/')', so only between-element blank lines are asserted there",
		},
		Required: map[string]int{"list_kinds": 14, "patterns": 9},
	})
}

type c05Kind struct {
	name      string
	tmpl      func(n int) string
	elems     func(f *dst.File, n int) []dst.Node
	edges     bool // blank lines at the delimiters are kept by gofmt
	exprList  bool // elements are expressions: own line only with NewLine spacing
	stmtLevel bool
	imports   bool // elements are package-qualified identifiers: decorated and restored with import management
	keywords  bool // elements are bare break / continue statements (located by keyword, not by name)
	blocks    bool // elements are bare blocks "{ }" (two lines each: located by their braces)
	rawStr    bool // elements are raw string literals that span four lines (with an empty line inside)
	outer     bool // elements contain delimiters of their own: the container is the first "{" / last "}" of the file
	// openDecs returns the decoration list that sits directly after the opening delimiter of the
	// container (BlockStmt.Lbrace, CompositeLit.Lbrace, CallExpr.Lparen, CaseClause.Colon ...)
	openDecs func(f *dst.File) *dst.Decorations
}

func names(n int) []string {
	var out []string
	for i := 1; i <= n; i++ {
		out = append(out, fmt.Sprintf("elem%d", i))
	}
	return out
}

var c05Kinds = []c05Kind{
	{name: "block-statements", edges: true, stmtLevel: true,
		tmpl: func(n int) string {
			s := "package p\n\nfunc f() {\n"
			for _, e := range names(n) {
				s += "\t" + e + "()\n"
			}
			return s + "}\n"
		},
		elems: func(f *dst.File, n int) []dst.Node {
			var out []dst.Node
			for _, s := range f.Decls[0].(*dst.FuncDecl).Body.List {
				out = append(out, s)
			}
			return out
		}},
	{name: "mixed-statements", edges: true, stmtLevel: true,
		// statements of different kinds (and widths): call, inc/dec, go, defer, define, declaration, send, assignment
		tmpl: func(n int) string {
			forms := []string{"%s()", "%s++", "go %s()", "defer %s()", "%s := 1", "var %s int", "%s <- 1", "%s = 2", "%s--"}
			s := "package p\n\nfunc f() {\n"
			for i, e := range names(n) {
				s += "\t" + fmt.Sprintf(forms[(i+n*4)%len(forms)], e) + "\n"
			}
			return s + "}\n"
		},
		elems: func(f *dst.File, n int) []dst.Node {
			var out []dst.Node
			for _, s := range f.Decls[0].(*dst.FuncDecl).Body.List {
				out = append(out, s)
			}
			return out
		}},
	{name: "branch-statements", edges: true, stmtLevel: true, keywords: true,
		// bare break / continue: elements without an identifier, found by their keyword
		tmpl: func(n int) string {
			s := "package p\n\nfunc f() {\n\tfor {\n"
			for i := range names(n) {
				s += "\t\t" + []string{"break", "continue"}[i%2] + "\n"
			}
			return s + "\t}\n}\n"
		},
		elems: func(f *dst.File, n int) []dst.Node {
			var out []dst.Node
			for _, s := range f.Decls[0].(*dst.FuncDecl).Body.List[0].(*dst.ForStmt).Body.List {
				out = append(out, s)
			}
			return out
		},
		openDecs: func(f *dst.File) *dst.Decorations {
			return &f.Decls[0].(*dst.FuncDecl).Body.List[0].(*dst.ForStmt).Body.Decs.Lbrace
		}},
	{name: "bare-blocks", edges: true, stmtLevel: true, blocks: true,
		// empty bare blocks as statements: the node itself carries End decorations and After spacing
		tmpl: func(n int) string {
			s := "package p\n\nfunc f() {\n"
			for range names(n) {
				s += "\t{\n\t}\n"
			}
			return s + "}\n"
		},
		elems: func(f *dst.File, n int) []dst.Node {
			var out []dst.Node
			for _, s := range f.Decls[0].(*dst.FuncDecl).Body.List {
				out = append(out, s)
			}
			return out
		}},
	{name: "case-body", edges: false, stmtLevel: true,
		tmpl: func(n int) string {
			s := "package p\n\nfunc f() {\n\tswitch x {\n\tcase 1:\n"
			for _, e := range names(n) {
				s += "\t\t" + e + "()\n"
			}
			return s + "\t}\n}\n"
		},
		elems: func(f *dst.File, n int) []dst.Node {
			var out []dst.Node
			cc := f.Decls[0].(*dst.FuncDecl).Body.List[0].(*dst.SwitchStmt).Body.List[0].(*dst.CaseClause)
			for _, s := range cc.Body {
				out = append(out, s)
			}
			return out
		}},
	{name: "composite-literal", edges: true, exprList: true,
		tmpl: func(n int) string {
			s := "package p\n\nvar v = []int{\n"
			for _, e := range names(n) {
				s += "\t" + e + ",\n"
			}
			return s + "}\n"
		},
		elems: func(f *dst.File, n int) []dst.Node {
			var out []dst.Node
			for _, e := range f.Decls[0].(*dst.GenDecl).Specs[0].(*dst.ValueSpec).Values[0].(*dst.CompositeLit).Elts {
				out = append(out, e)
			}
			return out
		}},
	{name: "composite-literal-mixed-expressions", edges: true, exprList: true, outer: true,
		// elements of every expression node type that fits on one line: each node type renders its
		// own Before/After spacing
		tmpl: func(n int) string {
			forms := []string{"%s[int, string]", "%s[int]", "%s.x", "%s()", "&%s", "*%s", "-%s", "%s + 1", "(%s)", "%s[1:2]", "%s.(T)", "[]int{%s}", "%s{}",
				"1: %s", "<-%s", "[2]%s{}", "map[%s]int{}", "func(%s int) {}", "%s[a, b]{}", "struct{ %s int }{}", "interface{ %s() }(nil)", "(chan %s)(nil)", "%s[1:2:3]", "*%s[int, string]{}", "chan %s", "<-chan %s", "[]%s", "map[int]%s", "func(%s)", "*%s", "%s.(T)", "interface{ %s() }", "struct{ %s int }"}
			s := "package p\n\nvar v = []any{\n"
			for i, e := range names(n) {
				s += "\t" + fmt.Sprintf(forms[(i+n*5)%len(forms)], e) + ",\n"
			}
			return s + "}\n"
		},
		elems: func(f *dst.File, n int) []dst.Node {
			var out []dst.Node
			for _, e := range f.Decls[0].(*dst.GenDecl).Specs[0].(*dst.ValueSpec).Values[0].(*dst.CompositeLit).Elts {
				out = append(out, e)
			}
			return out
		}},
	{name: "call-arguments", edges: false, exprList: true,
		tmpl: func(n int) string {
			s := "package p\n\nvar v = f(\n"
			for _, e := range names(n) {
				s += "\t" + e + ",\n"
			}
			return s + ")\n"
		},
		elems: func(f *dst.File, n int) []dst.Node {
			var out []dst.Node
			for _, e := range f.Decls[0].(*dst.GenDecl).Specs[0].(*dst.ValueSpec).Values[0].(*dst.CallExpr).Args {
				out = append(out, e)
			}
			return out
		}},
	{name: "parameters", edges: false, exprList: true,
		// fields of a parameter list: go/printer decides line breaks from the end line of the
		// previous field and the start line of the next
		tmpl: func(n int) string {
			// parameter types that end in different tokens (identifier, bare result of a func type,
			// bracket, brace, parenthesised results, ellipsis)
			types := []string{"int", "func(int) error", "[]string", "struct{}", "func() (int, error)", "map[string]int", "interface{}", "*T", "chan<- int"}
			s := "package p\n\nfunc f(\n"
			for i, e := range names(n) {
				s += "\t" + e + " " + types[(i+n)%len(types)] + ",\n"
			}
			return s + ") {\n}\n"
		},
		elems: func(f *dst.File, n int) []dst.Node {
			var out []dst.Node
			for _, e := range f.Decls[0].(*dst.FuncDecl).Type.Params.List {
				out = append(out, e)
			}
			return out
		},
		openDecs: func(f *dst.File) *dst.Decorations { return &f.Decls[0].(*dst.FuncDecl).Type.Params.Decs.Opening }},
	{name: "results", edges: false, exprList: true,
		tmpl: func(n int) string {
			types := []string{"func(int) error", "int", "struct{}", "[]string", "func() (int, error)", "*T"}
			s := "package p\n\nfunc f() (\n"
			for i, e := range names(n) {
				s += "\t" + e + " " + types[(i+n)%len(types)] + ",\n"
			}
			return s + ") {\n\treturn\n}\n"
		},
		elems: func(f *dst.File, n int) []dst.Node {
			var out []dst.Node
			for _, e := range f.Decls[0].(*dst.FuncDecl).Type.Results.List {
				out = append(out, e)
			}
			return out
		},
		openDecs: func(f *dst.File) *dst.Decorations { return &f.Decls[0].(*dst.FuncDecl).Type.Results.Decs.Opening }},
	{name: "composite-literal-raw-strings", edges: true, exprList: true, rawStr: true,
		// elements that span several lines themselves: the line table must account for every line
		// feed inside the literal, empty lines included
		tmpl: func(n int) string {
			s := "package p\n\nvar v = []string{\n"
			for _, e := range names(n) {
				s += "\t\x60" + e + "\n\nx\ny\x60,\n"
			}
			return s + "}\n"
		},
		elems: func(f *dst.File, n int) []dst.Node {
			var out []dst.Node
			for _, e := range f.Decls[0].(*dst.GenDecl).Specs[0].(*dst.ValueSpec).Values[0].(*dst.CompositeLit).Elts {
				out = append(out, e)
			}
			return out
		},
		openDecs: func(f *dst.File) *dst.Decorations { return &valueOf2(f).(*dst.CompositeLit).Decs.Lbrace }},
	{name: "composite-literal-raw-strings-after-line-directive", edges: true, exprList: true, rawStr: true,
		// the same in generated code: a //line directive before the declaration shifts every reported
		// line number, the line breaks inside the literals are still where the bytes are
		tmpl: func(n int) string {
			s := "package p\n\n//line gen.y:1000\nvar v = []string{\n"
			for _, e := range names(n) {
				s += "\t\x60" + e + "\n\nx\ny\x60,\n"
			}
			return s + "}\n"
		},
		elems: func(f *dst.File, n int) []dst.Node {
			var out []dst.Node
			for _, e := range f.Decls[0].(*dst.GenDecl).Specs[0].(*dst.ValueSpec).Values[0].(*dst.CompositeLit).Elts {
				out = append(out, e)
			}
			return out
		},
		openDecs: func(f *dst.File) *dst.Decorations { return &valueOf2(f).(*dst.CompositeLit).Decs.Lbrace }},
	{name: "composite-literal-qualified", edges: true, exprList: true, imports: true,
		tmpl: func(n int) string {
			s := "package p\n\nimport \"x/pk\"\n\nvar v = []int{\n"
			for _, e := range names(n) {
				s += "\tpk." + e + ",\n"
			}
			return s + "}\n"
		},
		elems: func(f *dst.File, n int) []dst.Node {
			var out []dst.Node
			for _, e := range f.Decls[1].(*dst.GenDecl).Specs[0].(*dst.ValueSpec).Values[0].(*dst.CompositeLit).Elts {
				out = append(out, e)
			}
			return out
		}},
	{name: "call-arguments-qualified", edges: false, exprList: true, imports: true,
		tmpl: func(n int) string {
			s := "package p\n\nimport \"x/pk\"\n\nvar v = f(\n"
			for _, e := range names(n) {
				s += "\tpk." + e + ",\n"
			}
			return s + ")\n"
		},
		elems: func(f *dst.File, n int) []dst.Node {
			var out []dst.Node
			for _, e := range f.Decls[1].(*dst.GenDecl).Specs[0].(*dst.ValueSpec).Values[0].(*dst.CallExpr).Args {
				out = append(out, e)
			}
			return out
		}},
	{name: "struct-fields", edges: false,
		tmpl: func(n int) string {
			s := "package p\n\ntype T struct {\n"
			for _, e := range names(n) {
				s += "\t" + e + " int\n"
			}
			return s + "}\n"
		},
		elems: func(f *dst.File, n int) []dst.Node {
			var out []dst.Node
			for _, e := range f.Decls[0].(*dst.GenDecl).Specs[0].(*dst.TypeSpec).Type.(*dst.StructType).Fields.List {
				out = append(out, e)
			}
			return out
		}},
	{name: "value-specs", edges: false,
		tmpl: func(n int) string {
			s := "package p\n\nvar (\n"
			for _, e := range names(n) {
				s += "\t" + e + " = 1\n"
			}
			return s + ")\n"
		},
		elems: func(f *dst.File, n int) []dst.Node {
			var out []dst.Node
			for _, e := range f.Decls[0].(*dst.GenDecl).Specs {
				out = append(out, e)
			}
			return out
		}},
}

const c05Block = "/*E\nE2*/"

var c05Patterns = []string{"none", "end-line-comment", "start-line-comment", "end-newline", "end-two-newlines", "end+start-line-comments", "open-newline", "open-line-comment", "end-multiline-block"}

func init() {
	valueOf := func(f *dst.File, decl int) dst.Expr {
		return f.Decls[decl].(*dst.GenDecl).Specs[0].(*dst.ValueSpec).Values[0]
	}
	for i := range c05Kinds {
		k := &c05Kinds[i]
		switch k.name {
		case "block-statements", "mixed-statements", "bare-blocks":
			k.openDecs = func(f *dst.File) *dst.Decorations { return &f.Decls[0].(*dst.FuncDecl).Body.Decs.Lbrace }
		case "case-body":
			k.openDecs = func(f *dst.File) *dst.Decorations {
				return &f.Decls[0].(*dst.FuncDecl).Body.List[0].(*dst.SwitchStmt).Body.List[0].(*dst.CaseClause).Decs.Colon
			}
		case "composite-literal", "composite-literal-mixed-expressions":
			k.openDecs = func(f *dst.File) *dst.Decorations { return &valueOf(f, 0).(*dst.CompositeLit).Decs.Lbrace }
		case "call-arguments":
			k.openDecs = func(f *dst.File) *dst.Decorations { return &valueOf(f, 0).(*dst.CallExpr).Decs.Lparen }
		case "composite-literal-qualified":
			k.openDecs = func(f *dst.File) *dst.Decorations { return &valueOf(f, 1).(*dst.CompositeLit).Decs.Lbrace }
		case "call-arguments-qualified":
			k.openDecs = func(f *dst.File) *dst.Decorations { return &valueOf(f, 1).(*dst.CallExpr).Decs.Lparen }
		case "struct-fields":
			k.openDecs = func(f *dst.File) *dst.Decorations {
				return &f.Decls[0].(*dst.GenDecl).Specs[0].(*dst.TypeSpec).Type.(*dst.StructType).Fields.Decs.Opening
			}
		case "value-specs":
			k.openDecs = func(f *dst.File) *dst.Decorations { return &f.Decls[0].(*dst.GenDecl).Decs.Lparen }
		}
	}
}

func nodeDecs(n dst.Node) *dst.NodeDecs {
	return n.Decorations()
}

// c05Case builds, prints and checks one assignment. sp[2i] = Before_i, sp[2i+1] = After_i.
func c05Case(c *fw.Ctx, kind c05Kind, n int, pattern string, sp []dst.SpaceType, target int) {
	var f *dst.File
	var err error
	if kind.imports {
		d := decorator.NewDecoratorWithImports(token.NewFileSet(), "x/self", goast.WithResolver(simple.New(map[string]string{"x/pk": "pk"})))
		f, err = d.Parse(kind.tmpl(n))
	} else {
		f, err = decorator.Parse(kind.tmpl(n))
	}
	if err != nil {
		panic(err)
	}
	els := kind.elems(f, n)
	if kind.imports {
		for _, e := range els {
			if id, ok := e.(*dst.Ident); !ok || id.Path == "" {
				panic("template element is not a path-carrying identifier")
			}
		}
	}
	for i, e := range els {
		d := nodeDecs(e)
		d.Before, d.After = sp[2*i], sp[2*i+1]
		d.Start, d.End = nil, nil
	}
	// comment pattern applies to element `target` (End) and target+1 (Start)
	extraBreaksAfterTarget := 0
	startComment := false
	endComment := false
	endBlock := false
	openPattern := strings.HasPrefix(pattern, "open-")
	if openPattern {
		od := kind.openDecs(f)
		*od = nil
		if pattern == "open-newline" {
			*od = dst.Decorations{"\n"}
		} else {
			*od = dst.Decorations{"// O"}
		}
	} else if kind.openDecs != nil {
		// the template's own line break after the opening delimiter may have been parsed as a
		// "\n" decoration there; the spacing under test is given by Before of the first element
		*kind.openDecs(f) = nil
	}
	if pattern != "none" && !openPattern {
		td := nodeDecs(els[target])
		switch pattern {
		case "end-line-comment":
			td.End = dst.Decorations{"// E"}
			endComment = true
		case "end-newline":
			td.End = dst.Decorations{"\n"}
			extraBreaksAfterTarget = 1
		case "end-two-newlines":
			td.End = dst.Decorations{"\n", "\n"}
			extraBreaksAfterTarget = 2
		case "end-multiline-block":
			// a block comment that spans two lines: it contributes no line break of its own, and
			// the lines it occupies must be accounted for when the following spacing is rendered
			td.End = dst.Decorations{c05Block}
			endBlock = true
		}
		if pattern == "start-line-comment" || pattern == "end+start-line-comments" {
			if target+1 < len(els) {
				nodeDecs(els[target+1]).Start = dst.Decorations{"// S"}
				startComment = true
			}
			if pattern == "end+start-line-comments" {
				td.End = dst.Decorations{"// E"}
				endComment = true
			}
		}
	}
	out, perr := "", ""
	if kind.imports {
		var buf bytes.Buffer
		if sig, detail := fw.Try(func() {
			if err := decorator.NewRestorerWithImports("x/self", simple.New(map[string]string{"x/pk": "pk"})).Fprint(&buf, f); err != nil {
				perr = err.Error()
			}
		}); sig != "" {
			perr = sig + "\n" + detail
		}
		out = buf.String()
	} else {
		out, perr = printFile(f)
	}
	desc := func() string {
		var parts []string
		for i := range els {
			parts = append(parts, fmt.Sprintf("%s/%s", sp[2*i], sp[2*i+1]))
		}
		return fmt.Sprintf("%s n=%d pattern=%s target=%d spacing(Before/After)=[%s]", kind.name, n, pattern, target, strings.Join(parts, " "))
	}
	if perr != "" {
		c.Violate("print-failed", "print-failed:"+kind.name, desc()+": "+perr, "")
		return
	}
	toks, _ := obs.Scan([]byte(out))
	line := map[string]int{}
	closeLine, openLine := 0, 0
	depthOpen := false
	elemTok := map[string]int{}
	endTok := map[string]int{}
	endLine := map[string]int{}
	kwSeen := 0
	braceDepth := 0
	for i, t := range toks {
		if kind.blocks {
			switch t.Tok {
			case token.LBRACE:
				braceDepth++
				if braceDepth == 2 {
					kwSeen++
					name := fmt.Sprintf("elem%d", kwSeen)
					line[name] = t.Line
					elemTok[name] = i
				}
			case token.RBRACE:
				if braceDepth == 2 {
					name := fmt.Sprintf("elem%d", kwSeen)
					endLine[name] = t.Line
					endTok[name] = i
				}
				braceDepth--
			}
		}
		if kind.keywords && (t.Tok == token.BREAK || t.Tok == token.CONTINUE) {
			kwSeen++
			name := fmt.Sprintf("elem%d", kwSeen)
			line[name] = t.Line
			elemTok[name] = i
		}
		if kind.rawStr && t.Tok == token.STRING && strings.HasPrefix(t.Lit, "`elem") {
			name := strings.SplitN(strings.TrimPrefix(t.Lit, "`"), "\n", 2)[0]
			line[name] = t.Line
			endLine[name] = t.Line + strings.Count(t.Lit, "\n")
			elemTok[name] = i
			endTok[name] = i
		}
		if !kind.keywords && !kind.blocks && !kind.rawStr && t.Tok == token.IDENT && strings.HasPrefix(t.Lit, "elem") {
			if _, seen := elemTok[t.Lit]; !seen {
				elemTok[t.Lit] = i
			}
			line[t.Lit] = t.Line
		}
		if t.Tok == token.COMMENT {
			line[strings.TrimSpace(t.Lit)] = t.Line
			if strings.HasPrefix(t.Lit, "/*E") {
				line[c05Block] = t.Line // go/printer re-indents the second line of the comment
			}
		}
		_ = i
	}
	// delimiters: the line of the opening token directly before elem1 and of the closing token after the last element
	for i := range toks {
		if first, ok := elemTok["elem1"]; ok && i == first && !depthOpen {
			for j := i - 1; j >= 0; j-- {
				if toks[j].Tok == token.LBRACE || toks[j].Tok == token.LPAREN || toks[j].Tok == token.COLON {
					openLine = toks[j].Line
					break
				}
			}
			depthOpen = true
		}
	}
	lastName := fmt.Sprintf("elem%d", n)
	lastIdx, haveLast := elemTok[lastName]
	if e, ok := endTok[lastName]; ok {
		lastIdx = e
	}
	for i := range toks {
		if haveLast && i == lastIdx {
			depth := 0
			for j := i + 1; j < len(toks); j++ {
				switch toks[j].Tok {
				case token.LPAREN, token.LBRACE:
					depth++
				case token.RPAREN, token.RBRACE:
					if depth == 0 {
						closeLine = toks[j].Line
					}
					depth--
				}
				if closeLine != 0 {
					break
				}
			}
		}
	}
	if kind.outer {
		openLine, closeLine = 0, 0
		for _, t := range toks {
			if t.Tok == token.LBRACE && openLine == 0 {
				openLine = t.Line
			}
			if t.Tok == token.RBRACE {
				closeLine = t.Line
			}
		}
	}
	comb := func(i int) dst.SpaceType { // combined spacing between element i and i+1
		a, b := sp[2*i+1], sp[2*(i+1)]
		if a > b {
			return a
		}
		return b
	}
	fail := func(rule, detail string) {
		c.Violate(rule, rule+":"+kind.name+":"+pattern, desc()+": "+detail+"\n"+out, "")
	}
	ownLines := !kind.exprList
	for i := 0; i+1 < n; i++ {
		a, b := fmt.Sprintf("elem%d", i+1), fmt.Sprintf("elem%d", i+2)
		la, lb := line[a], line[b]
		if e, ok := endLine[a]; ok {
			la = e // a two-line element ends on the line of its closing brace
		}
		if i == target && endBlock {
			if line[c05Block] != la {
				fail("end-comment-placement", fmt.Sprintf("End block comment starts on line %d, its element is on line %d (want the same line)", line[c05Block], la))
			}
			la = line[c05Block] + strings.Count(c05Block, "\n") // the line on which the comment ends
		}
		spacing := int(comb(i)) // 0, 1, 2 line breaks asked for by Before/After
		hasE := i == target && endComment
		hasS := i == target && startComment
		explicit := 0
		if i == target {
			explicit = extraBreaksAfterTarget
		}
		// line breaks between the element and the next thing (the Start comment or the next element)
		b1 := explicit
		if hasE {
			b1++
		}
		if spacing > 0 {
			if hasE || explicit > 0 {
				b1 += spacing - 1 // the line is already broken: spacing is not additive
			} else {
				b1 += spacing
			}
		}
		if hasE && line["// E"] != la {
			fail("end-comment-placement", fmt.Sprintf("End line comment is on line %d, its element on line %d (want the same line)", line["// E"], la))
		}
		blanks := func(breaks int) int {
			if breaks >= 2 {
				return 1
			}
			return 0
		}
		if hasS {
			ls := line["// S"]
			if lb != ls+1 {
				fail("start-comment-placement", fmt.Sprintf("Start line comment is on line %d, its element on line %d (want directly above)", ls, lb))
			}
			if b1 == 0 {
				// nothing breaks the line before the comment: it trails the previous element
				if ownLines && ls != la {
					// statements, fields and specs are always broken by go/printer: the comment may
					// then sit on its own line without a blank line
					if ls-la-1 != 0 {
						fail("blank-lines", fmt.Sprintf("between %s (line %d) and the Start comment (line %d): %d blank line(s), want 0", a, la, ls, ls-la-1))
					}
				}
				c.Count("pairs_checked", 1)
				continue
			}
			if ls-la-1 != blanks(b1) {
				fail("blank-lines", fmt.Sprintf("between %s (line %d) and the Start comment of %s (line %d): %d blank line(s), want %d", a, la, b, ls, ls-la-1, blanks(b1)))
			}
			c.Count("pairs_checked", 1)
			continue
		}
		if b1 == 0 {
			if ownLines && lb != la {
				b1 = 1 // go/printer breaks statements, fields and specs itself
			} else {
				c.Count("pairs_outside_domain_same_line", 1) // elements do not occupy their own lines
				continue
			}
		}
		if lb == la {
			fail("missing-line-break", fmt.Sprintf("%s and %s share line %d although a line break was asked for", a, b, la))
			continue
		}
		if lb-la-1 != blanks(b1) {
			fail("blank-lines", fmt.Sprintf("between %s (line %d) and %s (line %d): %d blank line(s), want %d", a, la, b, lb, lb-la-1, blanks(b1)))
		}
		c.Count("pairs_checked", 1)
	}
	if openLine > 0 && closeLine > 0 {
		first, last := line["elem1"], line[lastName]
		if e, ok := endLine[lastName]; ok {
			last = e
		}
		if endBlock && target == n-1 {
			last = line[c05Block] + strings.Count(c05Block, "\n")
		}
		keepOpen, keepClose := c05EdgeCalibration(kind)
		// opening edge: only when the first element occupies its own line
		if openPattern && first <= openLine {
			fail("missing-line-break", fmt.Sprintf("a %s decoration follows the opening delimiter but the first element stays on line %d", pattern, openLine))
		}
		if first > openLine {
			if kind.exprList && sp[0] == dst.None && !openPattern {
				fail("unexpected-line-break", fmt.Sprintf("first element should stay on the opening line %d, is on %d", openLine, first))
			} else if keepOpen {
				want := 0
				if sp[0] == dst.EmptyLine {
					want = 1
				}
				if first-openLine-1 != want {
					fail("edge-blank-open", fmt.Sprintf("%d blank line(s) after the opening delimiter, want %d", first-openLine-1, want))
				}
				c.Count("edges_checked", 1)
			}
		} else if sp[0] != dst.None {
			fail("missing-line-break", fmt.Sprintf("first element has Before=%s but stays on the opening line", sp[0]))
		}
		// closing edge (not when a comment pattern sits on the last element)
		if !(target == n-1 && pattern != "none" && !endBlock) && closeLine > last && keepClose {
			want := 0
			if sp[2*(n-1)+1] == dst.EmptyLine {
				want = 1
			}
			if closeLine-last-1 != want {
				fail("edge-blank-close", fmt.Sprintf("%d blank line(s) before the closing delimiter, want %d", closeLine-last-1, want))
			}
			c.Count("edges_checked", 1)
		}
	}
}

var c05Calib = map[string][2]bool{}
var c05CalibMu sync.Mutex

// c05EdgeCalibration asks gofmt (no dst involved) whether it keeps a blank line directly after the
// opening and directly before the closing delimiter of this list kind.
func c05EdgeCalibration(kind c05Kind) (open, close bool) {
	c05CalibMu.Lock()
	defer c05CalibMu.Unlock()
	if v, ok := c05Calib[kind.name]; ok {
		return v[0], v[1]
	}
	if kind.rawStr {
		// the elements span several lines: the textual probe below cannot place a blank line next
		// to them; the edges of this kind are not judged, only the spacing between elements
		c05Calib[kind.name] = [2]bool{false, false}
		return false, false
	}
	if kind.blocks {
		// the container is a function body, as for block-statements: use that calibration
		for _, k := range c05Kinds {
			if k.name == "block-statements" {
				c05CalibMu.Unlock()
				o, cl := c05EdgeCalibration(k)
				c05CalibMu.Lock()
				c05Calib[kind.name] = [2]bool{o, cl}
				return o, cl
			}
		}
	}
	src := kind.tmpl(2)
	lines := strings.Split(src, "\n")
	// find the lines of elem1 and elem2
	m1, m2 := "elem1", "elem2"
	if kind.keywords {
		m1, m2 = "break", "continue"
	}
	i1, i2 := -1, -1
	for i, l := range lines {
		if strings.Contains(l, m1) {
			i1 = i
		}
		if strings.Contains(l, m2) {
			i2 = i
		}
	}
	withBlank := func(at int) string {
		ls := append(append(append([]string(nil), lines[:at]...), ""), lines[at:]...)
		return strings.Join(ls, "\n")
	}
	keeps := func(text string, probe func(out string) bool) bool {
		g, err := format.Source([]byte(text))
		return err == nil && probe(string(g))
	}
	open = keeps(withBlank(i1), func(out string) bool {
		ol := strings.Split(out, "\n")
		for i, l := range ol {
			if strings.Contains(l, m1) {
				return i > 0 && strings.TrimSpace(ol[i-1]) == ""
			}
		}
		return false
	})
	close = keeps(withBlank(i2+1), func(out string) bool {
		ol := strings.Split(out, "\n")
		for i, l := range ol {
			if strings.Contains(l, m2) {
				return i+1 < len(ol) && strings.TrimSpace(ol[i+1]) == ""
			}
		}
		return false
	})
	c05Calib[kind.name] = [2]bool{open, close}
	return
}

func runC05(c *fw.Ctx) {
	idx := 0
	spaces := []dst.SpaceType{dst.None, dst.NewLine, dst.EmptyLine}
	maxN := c.Pick(3, 4)
	for _, kind := range c05Kinds {
		for n := 1; n <= maxN; n++ {
			total := 1
			for i := 0; i < 2*n; i++ {
				total *= 3
			}
			for _, pattern := range c05Patterns {
				if pattern != "none" && n == 1 && strings.Contains(pattern, "start") {
					continue
				}
				targets := []int{0}
				if n >= 3 {
					targets = []int{0, n - 2}
				}
				if pattern == "none" {
					targets = []int{0}
				}
				if pattern == "end-multiline-block" {
					if kind.exprList {
						continue // elements of expression lists do not occupy their own lines
					}
					if n >= 2 {
						targets = append(targets, n-1)
					}
				}
				for _, target := range targets {
					if strings.Contains(pattern, "start") && target+1 >= n {
						continue
					}
					// one Case per (kind, n, pattern, target): the whole 3^(2n) space is enumerated inside
					i := idx
					idx++
					if !c.Mine(i) {
						continue
					}
					id := fmt.Sprintf("%s/n=%d/%s/t=%d", kind.name, n, pattern, target)
					c.Case(id, func() {
						c.Observe("list_kinds", kind.name)
						c.Observe("patterns", pattern)
						sp := make([]dst.SpaceType, 2*n)
						for a := 0; a < total; a++ {
							x := a
							nonNone := false
							for k := 0; k < 2*n; k++ {
								sp[k] = spaces[x%3]
								if sp[k] != dst.None {
									nonNone = true
								}
								x /= 3
							}
							c05Case(c, kind, n, pattern, sp, target)
							c.Count("assignments", 1)
							if nonNone {
								c.Nontrivial(id, fmt.Sprint(a))
							}
						}
						c.Count("exhaustive_spaces", 1)
						if n == 2 && pattern == "end-line-comment" {
							c.Sample(map[string]interface{}{"case": id, "assignments_enumerated": total, "note": "all 3^(2n) Before/After assignments"})
						}
					})
				}
			}
		}
	}
	// seeded longer lists: n = 4..10, random spacing, random pattern and target
	nrand := c.Pick(400, 30000)
	for _, kind := range c05Kinds {
		i := idx
		idx++
		if !c.Mine(i) {
			continue
		}
		kind := kind
		id := fmt.Sprintf("%s/random-long", kind.name)
		c.Case(id, func() {
			r := c.Rand(id)
			for k := 0; k < nrand; k++ {
				n := 4 + r.Intn(7)
				sp := make([]dst.SpaceType, 2*n)
				for j := range sp {
					sp[j] = spaces[r.Intn(3)]
				}
				pattern := c05Patterns[r.Intn(len(c05Patterns))]
				if kind.exprList && pattern == "end-multiline-block" {
					pattern = "none"
				}
				target := r.Intn(n - 1)
				c05Case(c, kind, n, pattern, sp, target)
				c.Count("random_long_lists", 1)
				c.Nontrivial(id, fmt.Sprint(k))
			}
		})
	}
	_ = reflect.TypeOf
	c05Reused(c, idx)
}

// c05Reused: the spacing that is rendered depends on the tree alone, not on what the file restorer
// printed before. One FileRestorer prints a warm-up file of varying length, is (or is not) given a
// fresh file set, and then prints a list file with a given spacing; the text must equal the print
// by a fresh restorer (which the model judges elsewhere).
func c05Reused(c *fw.Ctx, idx int) {
	spaces := []dst.SpaceType{dst.None, dst.NewLine, dst.EmptyLine}
	for ki, kind := range c05Kinds {
		if kind.imports || kind.rawStr {
			continue
		}
		for variant := 0; variant < 6; variant++ {
			i := idx
			idx++
			if !c.Mine(i) {
				continue
			}
			id := fmt.Sprintf("reused-file-restorer:%s/%d", kind.name, variant)
			c.Case(id, func() {
				build := func() *dst.File {
					f, err := decorator.Parse(kind.tmpl(3))
					if err != nil {
						panic(err)
					}
					els := kind.elems(f, 3)
					for j, e := range els {
						d := nodeDecs(e)
						d.Before = spaces[(variant+j)%3]
						d.After = spaces[(variant/3+2*j)%3]
					}
					if variant%2 == 1 && len(f.Decls) > 0 {
						// a hand-built tree need not start its first declaration on a new line
						nodeDecs(f.Decls[0]).Before = dst.None
						f.Decs.Start = nil
					}
					return f
				}
				want, perr := printFile(build())
				if perr != "" {
					return
				}
				for w := 0; w < c.Pick(70, 160); w++ {
					for _, freshSet := range []bool{true, false} {
						warm, err := decorator.Parse("package a\n\nvar x" + strings.Repeat("x", w/2) + " T\nvar y" + strings.Repeat("y", w-w/2) + " T\n")
						if err != nil {
							panic(err)
						}
						fr := decorator.NewRestorer().FileRestorer()
						if fr.Fprint(io.Discard, warm) != nil {
							return
						}
						if freshSet {
							fr.Fset = token.NewFileSet()
						}
						var buf bytes.Buffer
						var err2 error
						if sig, detail := fw.Try(func() { err2 = fr.Fprint(&buf, build()) }); sig != "" {
							c.Violate("print-failed", "print-failed:reused-file-restorer", id+": "+sig+"\n"+detail, "")
							return
						}
						if err2 != nil {
							return
						}
						c.Count("reused_prints_compared", 1)
						if buf.String() != want {
							c.Violate("spacing-depends-on-history", fmt.Sprintf("spacing-depends-on-history:%s:fresh-file-set=%v", kind.name, freshSet), fmt.Sprintf("%s: after a warm-up file of %d+28 bytes (fresh file set: %v) the list file prints differently than through a fresh restorer:\n%s\n--- fresh restorer:\n%s", id, w, freshSet, buf.String(), want), "")
							return
						}
					}
				}
				c.Nontrivial(id)
			})
		}
		_ = ki
	}
}

func valueOf2(f *dst.File) dst.Expr {
	return f.Decls[0].(*dst.GenDecl).Specs[0].(*dst.ValueSpec).Values[0]
}
