package props

import (
	"fmt"
	"go/ast"
	"go/parser"
	"go/scanner"
	"go/token"
	"path/filepath"
	"reflect"
	"sort"
	"strings"

	"github.com/dave/dst"
	"github.com/dave/dst/decorator"
	"github.com/dave/dst/decorator/resolver/goast"
	"github.com/dave/dst/decorator/resolver/gotypes"

	"verif/internal/corpus"
	"verif/internal/fw"
	"verif/internal/gen"
	"verif/internal/refl"
)

func init() {
	fw.Register(&fw.Check{
		ID:    "C18",
		Level: "exploration",
		Rule: "cases: corpus files parsed with go/parser's identifier resolution, decorated, and restored with Extras; real multi-file packages from the corpus and generated packages " +
			"(redeclarations across files, undeclared names, dot-import collisions, blank and aliased imports) for NewPackage. Monitors: (1) identifiers are numbered in traversal order on " +
			"the ast and the dst side and every object is labelled with the index of its first identifier - the two labelings must be equal (objects shared iff counterparts shared), with " +
			"equal Kind, Name, Data (iota / scope) and Decl pointing at the dst counterpart of the declaring node (through the node map; cyclic object->decl->identifier->object links are " +
			"followed with a visited set); (2) File.Scope: same names, corresponding objects, same Outer chain; (3) the same comparison between the dst graph and the ast graph rebuilt by " +
			"Restorer{Extras:true}; (4) dst.NewPackage on decorated files (Unresolved lists carried over through the node map) vs ast.NewPackage on a second parse of the same sources, " +
			"with nil and with a mirrored fake importer + universe: package scope names/kinds, Imports keys, per-identifier resolution status in lock-step, remaining Unresolved names, " +
			"sorted error messages (positions and go/ast's 'previous declaration' suffix removed). distinct_nontrivial = distinct files/packages with at least 5 objects.",
		Floor: 150,
		Run:   runC18,
		Assumptions: []string{
			"go/parser's (deprecated but still default) object resolution and go/ast.NewPackage of the toolchain are the reference",
			"which of two redeclared objects ends up in the package scope depends on map iteration order in go/ast and dst alike; only names and kinds of the scope are compared",
		},
		Required: map[string]int{"object_kinds": 5},
	})
}

// identSeqAst / identSeqDst list identifiers in traversal order.
func identSeqAst(n ast.Node) []*ast.Ident {
	var out []*ast.Ident
	ast.Inspect(n, func(x ast.Node) bool {
		switch v := x.(type) {
		case *ast.CommentGroup, *ast.Comment:
			return false
		case *ast.Ident:
			out = append(out, v)
		}
		return true
	})
	return out
}

func identSeqDst(n dst.Node) []*dst.Ident {
	var out []*dst.Ident
	dst.Inspect(n, func(x dst.Node) bool {
		if v, ok := x.(*dst.Ident); ok {
			out = append(out, v)
		}
		return true
	})
	return out
}

// c18Graph compares the object graph hanging off aids with the one hanging off dids.
// nodeOf maps an ast node to its dst counterpart; scopeOf / objOf are the decorator's or restorer's maps.
func c18Graph(c *fw.Ctx, label, side string, aids []*ast.Ident, dids []*dst.Ident, nodeOf func(ast.Node) dst.Node, src string) (objects int) {
	viol := func(rule, sig, detail string) { c.Violate(side+"/"+rule, side+"/"+sig, label+": "+detail, src) }
	if len(aids) != len(dids) {
		viol("ident-count", "ident-count", fmt.Sprintf("%d ast identifiers, %d dst identifiers", len(aids), len(dids)))
		return 0
	}
	alabel := map[*ast.Object]int{}
	dlabel := map[*dst.Object]int{}
	for i := range aids {
		ao, do := aids[i].Obj, dids[i].Obj
		if (ao == nil) != (do == nil) {
			viol("object-presence", "object-presence", fmt.Sprintf("identifier #%d %q: ast Obj nil=%v, dst Obj nil=%v", i, aids[i].Name, ao == nil, do == nil))
			return len(alabel)
		}
		if ao == nil {
			continue
		}
		la, oka := alabel[ao]
		ld, okd := dlabel[do]
		if !oka {
			alabel[ao] = i
			la = i
		}
		if !okd {
			dlabel[do] = i
			ld = i
		}
		if la != ld {
			viol("sharing", "sharing", fmt.Sprintf("identifier #%d %q: ast object first seen at #%d, dst object first seen at #%d (objects shared differently)", i, aids[i].Name, la, ld))
			return len(alabel)
		}
		if oka {
			continue
		}
		// first sight of this object: compare its content
		c.Observe("object_kinds", ao.Kind.String())
		if int(ao.Kind) != int(do.Kind) || ao.Name != do.Name {
			viol("object-content", "object-content:kind-name", fmt.Sprintf("object of %q: ast %s %q, dst %s %q", aids[i].Name, ao.Kind, ao.Name, do.Kind, do.Name))
		}
		switch ad := ao.Data.(type) {
		case int:
			if dd, ok := do.Data.(int); !ok || dd != ad {
				viol("object-content", "object-content:data", fmt.Sprintf("object %q: Data (iota) %v vs %v", ao.Name, ao.Data, do.Data))
			}
			c.Count("iota_data_compared", 1)
		case nil:
			if do.Data != nil {
				viol("object-content", "object-content:data", fmt.Sprintf("object %q: ast Data nil, dst Data %T", ao.Name, do.Data))
			}
		case *ast.Scope:
			ds, ok := do.Data.(*dst.Scope)
			if !ok {
				viol("object-content", "object-content:data", fmt.Sprintf("object %q: ast Data is a scope, dst Data %T", ao.Name, do.Data))
			} else if d := scopeNames(ad); d != dscopeNames(ds) {
				viol("object-content", "object-content:data-scope", fmt.Sprintf("object %q: scope members %s vs %s", ao.Name, d, dscopeNames(ds)))
			}
		}
		switch decl := ao.Decl.(type) {
		case nil:
			if do.Decl != nil {
				viol("decl-link", "decl-link:nil", fmt.Sprintf("object %q: ast Decl nil, dst Decl %T", ao.Name, do.Decl))
			}
		case ast.Node:
			dn, ok := do.Decl.(dst.Node)
			if !ok || refl.IsNil(dn) {
				viol("decl-link", "decl-link:missing:"+refl.TypeName(decl), fmt.Sprintf("object %q: ast Decl is %T, dst Decl is %T", ao.Name, decl, do.Decl))
				break
			}
			if refl.TypeName(decl) != refl.TypeName(dn) {
				viol("decl-link", "decl-link:type:"+refl.TypeName(decl), fmt.Sprintf("object %q: ast Decl %T, dst Decl %T", ao.Name, decl, dn))
				break
			}
			if want := nodeOf(decl); want != nil && want != dn {
				viol("decl-link", "decl-link:target:"+refl.TypeName(decl), fmt.Sprintf("object %q: Decl does not point at the counterpart of the declaring %T", ao.Name, decl))
			}
			// the declaring node has the shape of its counterpart (node kinds and operator / keyword
			// tokens in traversal order): detached declarations, which are never printed, included
			if sa, sd := c18DeclShapeAst(decl), c18DeclShapeDst(dn); sa != sd && !strings.HasPrefix(side, "decorator+") { // (import management merges selectors into identifiers)
				viol("decl-link", "decl-link:shape:"+refl.TypeName(decl), fmt.Sprintf("object %q: its ast declaration has the shape %s, its dst declaration %s", ao.Name, sa, sd))
			}
			// the cycle closes: the identifiers inside the declaring node that carry this object
			na, nd := 0, 0
			for _, x := range identSeqAst(decl) {
				if x.Obj == ao {
					na++
				}
			}
			for _, x := range identSeqDst(dn) {
				if x.Obj == do {
					nd++
				}
			}
			if na != nd {
				viol("decl-link", "decl-link:declaring-identifier:"+refl.TypeName(decl), fmt.Sprintf("object %q: %d identifier(s) of its ast declaration carry it, %d of its dst declaration", ao.Name, na, nd))
			}
			c.Count("decl_links_followed", 1)
		case *ast.Scope:
			if _, ok := do.Decl.(*dst.Scope); !ok {
				viol("decl-link", "decl-link:scope", fmt.Sprintf("object %q: ast Decl is a scope, dst Decl %T", ao.Name, do.Decl))
			}
		}
	}
	return len(alabel)
}

// c18Pairs keeps the ast identifiers that have a dst identifier of their own (under import
// management the two identifiers of a package-qualified name are merged into their selector's
// counterpart and have none).
func c18Pairs(aids []*ast.Ident, nodeOf func(ast.Node) dst.Node) ([]*ast.Ident, []*dst.Ident) {
	var pa []*ast.Ident
	var pd []*dst.Ident
	for _, a := range aids {
		if di, ok := nodeOf(a).(*dst.Ident); ok && di != nil {
			pa = append(pa, a)
			pd = append(pd, di)
		}
	}
	return pa, pd
}

// c18Typed: type-checked generated programs decorated with the go/types resolver, with and without
// ResolveLocalPath.
func c18Typed(c *fw.Ctx, id string) {
	c.Case(id, func() {
		r := c.Rand(id)
		p := gen.GenProgram(r, 1+r.Intn(3))
		srcs := map[string]string{}
		for _, f := range p.Files {
			srcs[f.Name] = f.Src
		}
		files, info, _, err := p.Check(srcs, p.PkgPath)
		if err != nil {
			c.Count("inconclusive_program_rejected_by_go_types", 1)
			return
		}
		for k, af := range files {
			for _, resolveLocal := range []bool{false, true} {
				d := decorator.NewDecoratorWithImports(p.Fset, p.PkgPath, gotypes.New(info.Uses))
				d.ResolveLocalPath = resolveLocal
				if _, err := d.DecorateFile(af); err != nil {
					c.Violate("decorate-error", "decorate-error:gotypes", id+": "+err.Error(), p.Files[k].Src)
					continue
				}
				nodeOf := func(a ast.Node) dst.Node { return d.Dst.Nodes[a] }
				pa, pd := c18Pairs(identSeqAst(af), nodeOf)
				n := c18Graph(c, fmt.Sprintf("%s/%s/resolveLocal=%v", id, p.Files[k].Name, resolveLocal), "decorator+gotypes", pa, pd, nodeOf, p.Files[k].Src)
				c.Count("typed_files", 1)
				if n >= 3 {
					c.Nontrivial(id, p.Files[k].Name, fmt.Sprint(resolveLocal))
				}
			}
		}
	})
}

func c18Tokens(v reflect.Value) string {
	out := ""
	v = reflect.Indirect(v)
	if !v.IsValid() || v.Kind() != reflect.Struct {
		return ""
	}
	for _, fn := range []string{"Op", "Tok"} {
		if f := v.FieldByName(fn); f.IsValid() && f.Type() == reflect.TypeOf(token.ADD) {
			out += ":" + token.Token(f.Int()).String()
		}
	}
	return out
}

func c18DeclShapeAst(n ast.Node) string {
	var sb strings.Builder
	ast.Inspect(n, func(x ast.Node) bool {
		switch x.(type) {
		case nil:
			return false
		case *ast.CommentGroup, *ast.Comment:
			return false
		}
		if refl.IsNil(x) {
			return false
		}
		sb.WriteString(refl.TypeName(x) + c18Tokens(reflect.ValueOf(x)) + " ")
		return true
	})
	return sb.String()
}

func c18DeclShapeDst(n dst.Node) string {
	var sb strings.Builder
	dst.Inspect(n, func(x dst.Node) bool {
		if refl.IsNil(x) {
			return false
		}
		sb.WriteString(refl.TypeName(x) + c18Tokens(reflect.ValueOf(x)) + " ")
		return true
	})
	return sb.String()
}

func scopeNames(s *ast.Scope) string {
	if s == nil {
		return "<nil>"
	}
	var n []string
	for k, o := range s.Objects {
		n = append(n, k+":"+o.Kind.String())
	}
	sort.Strings(n)
	return strings.Join(n, ",")
}

func dscopeNames(s *dst.Scope) string {
	if s == nil {
		return "<nil>"
	}
	var n []string
	for k, o := range s.Objects {
		n = append(n, k+":"+o.Kind.String())
	}
	sort.Strings(n)
	return strings.Join(n, ",")
}

func c18File(c *fw.Ctx, id string, name string, src []byte) {
	c.Case(id, func() {
		fset := token.NewFileSet()
		af, err := parser.ParseFile(fset, name, src, parser.ParseComments)
		if err != nil {
			return
		}
		d := decorator.NewDecorator(fset)
		df, err := d.DecorateFile(af)
		if err != nil {
			c.Violate("decorate-error", "decorate-error", id+": "+err.Error(), string(src))
			return
		}
		aids, dids := identSeqAst(af), identSeqDst(df)
		n := c18Graph(c, id, "decorator", aids, dids, func(a ast.Node) dst.Node { return d.Dst.Nodes[a] }, string(src))
		c.Count("objects", int64(n))
		c.Count("identifiers", int64(len(aids)))
		// file scope
		if a, b := scopeNames(af.Scope), dscopeNames(df.Scope); a != b {
			c.Violate("decorator/file-scope", "decorator/file-scope", fmt.Sprintf("%s: File.Scope members differ: ast %s, dst %s", id, a, b), string(src))
		}
		if af.Scope != nil && df.Scope != nil {
			for k, ao := range af.Scope.Objects {
				if d.Dst.Objects[ao] != df.Scope.Objects[k] {
					c.Violate("decorator/file-scope", "decorator/file-scope:object", fmt.Sprintf("%s: File.Scope[%q] is not the counterpart of the ast object", id, k), string(src))
				}
			}
			if (af.Scope.Outer == nil) != (df.Scope.Outer == nil) {
				c.Violate("decorator/file-scope", "decorator/file-scope:outer", id+": Outer chain differs", string(src))
			}
		}
		// the same file decorated with import management (syntax-only resolver): identifiers that have
		// a counterpart of their own carry the same object graph
		if fset2, af2 := token.NewFileSet(), (*ast.File)(nil); true {
			af2, err = parser.ParseFile(fset2, name, src, parser.ParseComments)
			if err == nil {
				d2 := decorator.NewDecoratorWithImports(fset2, "example.com/self", goast.New())
				if df2, err := d2.DecorateFile(af2); err == nil {
					pa, pd := c18Pairs(identSeqAst(af2), func(a ast.Node) dst.Node { return d2.Dst.Nodes[a] })
					c18Graph(c, id, "decorator+goast", pa, pd, func(a ast.Node) dst.Node { return d2.Dst.Nodes[a] }, string(src))
					c.Count("files_with_import_management", 1)
					_ = df2
				}
			}
		}
		// (3) restore with Extras: dst graph -> ast graph
		r := decorator.NewRestorer()
		r.Extras = true
		var rf *ast.File
		if sig, detail := fw.Try(func() { rf, err = r.RestoreFile(df) }); sig != "" {
			c.Violate("restore-panic", sig, id+"\n"+detail, string(src))
			return
		}
		if err != nil {
			return
		}
		raids := identSeqAst(rf)
		m := c18Graph(c, id, "restorer", raids, dids, func(a ast.Node) dst.Node { return r.Dst.Nodes[a] }, string(src))
		c.Count("objects_restored", int64(m))
		if a, b := scopeNames(rf.Scope), dscopeNames(df.Scope); a != b {
			c.Violate("restorer/file-scope", "restorer/file-scope", fmt.Sprintf("%s: restored File.Scope members differ: ast %s, dst %s", id, a, b), string(src))
		}
		if n >= 5 {
			c.Nontrivial(id)
		}
	})
}

func normErrs(err error) []string {
	var out []string
	if err == nil {
		return nil
	}
	if el, ok := err.(scanner.ErrorList); ok {
		for _, e := range el {
			m := e.Msg
			if i := strings.Index(m, "\n"); i >= 0 {
				m = m[:i]
			}
			out = append(out, m)
		}
	} else {
		out = append(out, err.Error())
	}
	sort.Strings(out)
	return out
}

var c18Universe = []string{"int", "string", "len", "nil", "true", "false", "error", "byte", "append", "make", "bool"}

func c18Package(c *fw.Ctx, id string, srcs map[string]string, withImporter bool) {
	c.Case(id, func() {
		for attempt := 0; attempt < 16; attempt++ {
			if !c18PackageOnce(c, id, srcs, withImporter) {
				return
			}
		}
		c.Count("inconclusive_package_name_depends_on_map_order", 1)
	})
}

// c18PackageOnce runs one comparison; it returns true when the two sides selected different
// package names (possible only with mismatching package clauses) and the case should be repeated.
func c18PackageOnce(c *fw.Ctx, id string, srcs map[string]string, withImporter bool) (retry bool) {
	func() {
		parse := func() (*token.FileSet, map[string]*ast.File) {
			fset := token.NewFileSet()
			m := map[string]*ast.File{}
			for n, s := range srcs {
				f, err := parser.ParseFile(fset, n, s, parser.ParseComments)
				if err != nil {
					return nil, nil
				}
				m[n] = f
			}
			return fset, m
		}
		fsetA, filesA := parse()
		fsetB, filesB := parse()
		if filesA == nil || filesB == nil {
			return
		}
		// side B: decorate, carry Unresolved over through the node map
		d := decorator.NewDecorator(fsetB)
		dfiles := map[string]*dst.File{}
		var names []string
		for n := range filesB {
			names = append(names, n)
		}
		sort.Strings(names)
		for _, n := range names {
			df, err := d.DecorateFile(filesB[n])
			if err != nil {
				c.Violate("decorate-error", "decorate-error", id+": "+err.Error(), "")
				return
			}
			for _, u := range filesB[n].Unresolved {
				di, ok := d.Dst.Nodes[u].(*dst.Ident)
				if !ok {
					c.Violate("unresolved-unmapped", "unresolved-unmapped", id+": an identifier of File.Unresolved has no dst counterpart", srcs[n])
					return
				}
				df.Unresolved = append(df.Unresolved, di)
			}
			dfiles[n] = df
		}
		var aimp ast.Importer
		var dimp dst.Importer
		var auni *ast.Scope
		var duni *dst.Scope
		if withImporter {
			auni, duni = ast.NewScope(nil), dst.NewScope(nil)
			for _, u := range c18Universe {
				auni.Insert(ast.NewObj(ast.Typ, u))
				duni.Insert(dst.NewObj(dst.Typ, u))
			}
			members := []string{"Println", "Exported", "T", "clash"}
			aimp = func(imports map[string]*ast.Object, path string) (*ast.Object, error) {
				if strings.Contains(path, "missing") {
					return nil, fmt.Errorf("no such package")
				}
				if p := imports[path]; p != nil {
					return p, nil
				}
				p := ast.NewObj(ast.Pkg, filepath.Base(path))
				s := ast.NewScope(auni) // nested in the universe; "empty" packages export nothing
				for _, m := range members {
					if strings.Contains(path, "empty") {
						break
					}
					s.Insert(ast.NewObj(ast.Fun, m))
				}
				p.Data = s
				imports[path] = p
				return p, nil
			}
			dimp = func(imports map[string]*dst.Object, path string) (*dst.Object, error) {
				if strings.Contains(path, "missing") {
					return nil, fmt.Errorf("no such package")
				}
				if p := imports[path]; p != nil {
					return p, nil
				}
				p := dst.NewObj(dst.Pkg, filepath.Base(path))
				s := dst.NewScope(duni)
				for _, m := range members {
					if strings.Contains(path, "empty") {
						break
					}
					s.Insert(dst.NewObj(dst.Fun, m))
				}
				p.Data = s
				imports[path] = p
				return p, nil
			}
		}
		// the Unresolved lists as the parser / decorator left them (NewPackage consumes them)
		saveA := map[string][]*ast.Ident{}
		saveD := map[string][]*dst.Ident{}
		for _, n := range names {
			saveA[n] = append([]*ast.Ident(nil), filesA[n].Unresolved...)
			saveD[n] = append([]*dst.Ident(nil), dfiles[n].Unresolved...)
		}
		var apkg *ast.Package
		var dpkg *dst.Package
		var aerr, derr error
		apkg, aerr = ast.NewPackage(fsetA, filesA, aimp, auni)
		if sig, detail := fw.Try(func() { dpkg, derr = dst.NewPackage(fsetB, dfiles, dimp, duni) }); sig != "" {
			c.Violate("newpackage-panic", sig, id+"\n"+detail, "")
			return
		}
		viol := func(rule, detail string) {
			var all []string
			for _, n := range names {
				all = append(all, "// "+n+"\n"+srcs[n])
			}
			c.Violate("newpackage/"+rule, "newpackage/"+rule, id+": "+detail, strings.Join(all, "\n"))
		}
		if apkg.Name != dpkg.Name {
			// with mismatching package clauses the chosen name depends on map iteration order on
			// both sides: the case is repeated (fresh parse) until both select the same name
			c.Count("retries_package_name_depends_on_map_order", 1)
			retry = true
			return
		}
		// a name declared more than once: which declaration wins depends on map iteration order
		// in go/ast and dst alike, so its kind and the target of references to it are not compared
		redeclared := map[string]bool{}
		for _, m := range append(normErrs(aerr), normErrs(derr)...) {
			if strings.HasSuffix(m, " redeclared in this block") {
				redeclared[strings.TrimSuffix(m, " redeclared in this block")] = true
			}
		}
		stripKinds := func(s string) string {
			var out []string
			for _, e := range strings.Split(s, ",") {
				kv := strings.SplitN(e, ":", 2)
				if redeclared[kv[0]] {
					e = kv[0] + ":*"
				}
				out = append(out, e)
			}
			return strings.Join(out, ",")
		}
		if a, b := stripKinds(scopeNames(apkg.Scope)), stripKinds(dscopeNames(dpkg.Scope)); a != b {
			viol("package-scope", fmt.Sprintf("package scope: ast %s, dst %s", a, b))
		}
		var ai, di []string
		for k := range apkg.Imports {
			ai = append(ai, k)
		}
		for k := range dpkg.Imports {
			di = append(di, k)
		}
		sort.Strings(ai)
		sort.Strings(di)
		if strings.Join(ai, ",") != strings.Join(di, ",") {
			viol("imports", fmt.Sprintf("Imports keys: ast %v, dst %v", ai, di))
		}
		ea, ed := normErrs(aerr), normErrs(derr)
		if strings.Join(ea, "\n") != strings.Join(ed, "\n") {
			viol("errors", fmt.Sprintf("error reports differ:\n ast: %v\n dst: %v", ea, ed))
		}
		c.Count("error_messages_compared", int64(len(ea)))
		for _, n := range names {
			aids, dids := identSeqAst(filesA[n]), identSeqDst(dfiles[n])
			if len(aids) != len(dids) {
				viol("ident-count", n)
				continue
			}
			for i := range aids {
				ao, do := aids[i].Obj, dids[i].Obj
				if (ao == nil) != (do == nil) {
					viol("resolution-status", fmt.Sprintf("%s: identifier #%d %q resolved on one side only (ast %v, dst %v)", n, i, aids[i].Name, ao != nil, do != nil))
					break
				}
				if ao != nil && !redeclared[ao.Name] && (int(ao.Kind) != int(do.Kind) || ao.Name != do.Name) {
					viol("resolution-target", fmt.Sprintf("%s: identifier #%d %q resolves to %s %q vs %s %q", n, i, aids[i].Name, ao.Kind, ao.Name, do.Kind, do.Name))
					break
				}
			}
			var au, du []string
			for _, u := range filesA[n].Unresolved {
				au = append(au, u.Name)
			}
			for _, u := range dfiles[n].Unresolved {
				du = append(du, u.Name)
			}
			if strings.Join(au, ",") != strings.Join(du, ",") {
				viol("unresolved", fmt.Sprintf("%s: remaining Unresolved: ast %v, dst %v", n, au, du))
			}
			c.Count("unresolved_remaining", int64(len(au)))
		}
		c.Count("packages", 1)
		if len(apkg.Scope.Objects) >= 5 {
			c.Nontrivial(id)
		}
		// each file of the resolved package restored on its own with Extras (the declarations of
		// objects declared in sibling files lie outside the restored file)
		for _, n := range names {
			r := decorator.NewRestorer()
			r.Extras = true
			var rf *ast.File
			var rerr error
			if sig, detail := fw.Try(func() { rf, rerr = r.RestoreFile(dfiles[n]) }); sig != "" {
				c.Violate("restore-panic", sig, id+"/"+n+" [resolved package, Extras]\n"+detail, srcs[n])
				continue
			}
			if rerr != nil || rf == nil {
				continue
			}
			c18Graph(c, id+"/"+n+" [resolved package]", "restorer", identSeqAst(rf), identSeqDst(dfiles[n]), func(a ast.Node) dst.Node { return r.Dst.Nodes[a] }, srcs[n])
			c.Count("resolved_package_files_restored", 1)
		}
		// a second run over the same files minus one (Unresolved lists put back on both sides): the
		// identifiers bound in the first run are looked up again, in the smaller package
		if len(names) >= 2 {
			subA := map[string]*ast.File{}
			subD := map[string]*dst.File{}
			for _, n := range names[:len(names)-1] {
				filesA[n].Unresolved = append([]*ast.Ident(nil), saveA[n]...)
				dfiles[n].Unresolved = append([]*dst.Ident(nil), saveD[n]...)
				subA[n], subD[n] = filesA[n], dfiles[n]
			}
			apkg2, aerr2 := ast.NewPackage(fsetA, subA, aimp, auni)
			var dpkg2 *dst.Package
			var derr2 error
			if sig, detail := fw.Try(func() { dpkg2, derr2 = dst.NewPackage(fsetB, subD, dimp, duni) }); sig != "" {
				c.Violate("newpackage-panic", sig, id+" [second run]\n"+detail, "")
				return
			}
			if apkg2.Name == dpkg2.Name {
				ea2, ed2 := normErrs(aerr2), normErrs(derr2)
				if strings.Join(ea2, "\n") != strings.Join(ed2, "\n") {
					viol("errors", fmt.Sprintf("second run without %s: error reports differ:\n ast: %v\n dst: %v", names[len(names)-1], ea2, ed2))
				}
				red2 := map[string]bool{}
				for _, m := range append(ea2, ed2...) {
					if strings.HasSuffix(m, " redeclared in this block") {
						red2[strings.TrimSuffix(m, " redeclared in this block")] = true
					}
				}
				for _, n := range names[:len(names)-1] {
					var au, du []string
					for _, u := range filesA[n].Unresolved {
						au = append(au, u.Name)
					}
					for _, u := range dfiles[n].Unresolved {
						du = append(du, u.Name)
					}
					if strings.Join(au, ",") != strings.Join(du, ",") {
						viol("unresolved", fmt.Sprintf("second run without %s: %s: remaining Unresolved: ast %v, dst %v", names[len(names)-1], n, au, du))
					}
					aids, dids := identSeqAst(filesA[n]), identSeqDst(dfiles[n])
					for i := range aids {
						if i >= len(dids) {
							break
						}
						ao, do := aids[i].Obj, dids[i].Obj
						if (ao == nil) != (do == nil) {
							viol("resolution-status", fmt.Sprintf("second run: %s: identifier #%d %q resolved on one side only (ast %v, dst %v)", n, i, aids[i].Name, ao != nil, do != nil))
							break
						}
						if ao != nil && !red2[ao.Name] && !redeclared[ao.Name] && (int(ao.Kind) != int(do.Kind) || ao.Name != do.Name) {
							viol("resolution-target", fmt.Sprintf("second run: %s: identifier #%d %q resolves to %s %q vs %s %q", n, i, aids[i].Name, ao.Kind, ao.Name, do.Kind, do.Name))
							break
						}
					}
				}
				c.Count("second_runs", 1)
			}
		}
		// (5) decorate the *ast.Package that go/ast built (package scope with its Outer chain,
		// Imports map of package objects whose Data is a scope) and compare the graphs
		if withImporter {
			d2 := decorator.NewDecorator(fsetA)
			var dn dst.Node
			var derr2 error
			if sig, detail := fw.Try(func() { dn, derr2 = d2.DecorateNode(apkg) }); sig != "" {
				c.Violate("decorate-package-panic", sig, id+"\n"+detail, "")
				return
			}
			if derr2 != nil {
				return
			}
			dp := dn.(*dst.Package)
			if a, b := scopeNames(apkg.Scope), dscopeNames(dp.Scope); a != b {
				viol("decorated-package-scope", fmt.Sprintf("scope of the decorated package: ast %s, dst %s", a, b))
			}
			for as, ds := apkg.Scope, dp.Scope; as != nil || ds != nil; as, ds = as.Outer, ds.Outer {
				if (as == nil) != (ds == nil) {
					viol("decorated-package-outer", "Outer chain of the package scope has a different length")
					break
				}
				if scopeNames(as) != dscopeNames(ds) {
					viol("decorated-package-outer", fmt.Sprintf("an outer scope differs: ast %s, dst %s", scopeNames(as), dscopeNames(ds)))
					break
				}
			}
			for k, ao := range apkg.Imports {
				do := dp.Imports[k]
				if do == nil {
					viol("decorated-package-imports", "Imports["+k+"] missing after decoration")
					continue
				}
				if int(ao.Kind) != int(do.Kind) || ao.Name != do.Name {
					viol("decorated-package-imports", fmt.Sprintf("Imports[%s]: %s %q vs %s %q", k, ao.Kind, ao.Name, do.Kind, do.Name))
				}
				as, _ := ao.Data.(*ast.Scope)
				ds, _ := do.Data.(*dst.Scope)
				if as != nil && ds != nil && (as.Outer == nil) != (ds.Outer == nil) {
					viol("decorated-package-imports", fmt.Sprintf("Imports[%s].Data: Outer is nil on one side only", k))
				}
				if (as == nil) != (ds == nil) || (as != nil && scopeNames(as) != dscopeNames(ds)) {
					viol("decorated-package-imports", fmt.Sprintf("Imports[%s].Data (package scope): ast %s, dst %s", k, scopeNames(as), dscopeNames(ds)))
				}
				c.Observe("object_kinds", ao.Kind.String())
			}
			// per file: the identifier/object graph of the decorated package
			for _, n := range names {
				af := filesA[n]
				df, ok := dp.Files[n]
				if !ok {
					viol("decorated-package-files", "file "+n+" missing in the decorated package")
					continue
				}
				c18Graph(c, id+"/"+n, "decorated-package", identSeqAst(af), identSeqDst(df), func(a ast.Node) dst.Node { return d2.Dst.Nodes[a] }, srcs[n])
			}
			c.Count("decorated_packages", 1)
		}
	}()
	return retry
}

func runC18(c *fw.Ctx) {
	snips := extraSnippets()
	for k, v := range layoutZoo() {
		snips["zoo/"+k] = v
	}
	var sn []string
	for k := range snips {
		if !strings.HasPrefix(k, "bad:") {
			sn = append(sn, k)
		}
	}
	sort.Strings(sn)
	idx := 0
	for _, k := range sn {
		i := idx
		idx++
		if c.Mine(i) {
			c18File(c, "snippet:"+k, k+".go", []byte(snips[k]))
		}
	}
	for k := 0; k < c.Pick(150, 4000); k++ {
		i := idx
		idx++
		if c.Mine(i) {
			c18Typed(c, fmt.Sprintf("typed-program:%d", k))
		}
	}
	files := corpus.Sample(c.Rand("files"), c.Pick(300, 0))
	for _, p := range files {
		i := idx
		idx++
		if !c.Mine(i) {
			continue
		}
		src := readFile(p)
		if src == nil {
			continue
		}
		c18File(c, "file:"+corpus.Rel(p), filepath.Base(p), src)
	}
	// real packages
	dirs := map[string][]string{}
	for _, p := range corpus.Files() {
		if strings.HasSuffix(p, "_test.go") || strings.Contains(p, "testdata") {
			continue
		}
		dirs[filepath.Dir(p)] = append(dirs[filepath.Dir(p)], p)
	}
	var dl []string
	for d, fs := range dirs {
		if len(fs) >= 2 && len(fs) <= 40 {
			dl = append(dl, d)
		}
	}
	sort.Strings(dl)
	r := c.Rand("dirs")
	r.Shuffle(len(dl), func(i, j int) { dl[i], dl[j] = dl[j], dl[i] })
	if n := c.Pick(40, 600); len(dl) > n {
		dl = dl[:n]
	}
	for _, dir := range dl {
		i := idx
		idx++
		if !c.Mine(i) {
			continue
		}
		srcs := map[string]string{}
		pkgName := ""
		for _, p := range dirs[dir] {
			b := readFile(p)
			f, err := parser.ParseFile(token.NewFileSet(), p, b, parser.PackageClauseOnly)
			if err != nil {
				continue
			}
			if pkgName == "" {
				pkgName = f.Name.Name
			}
			if f.Name.Name == pkgName {
				srcs[filepath.Base(p)] = string(b)
			}
		}
		if len(srcs) < 2 {
			continue
		}
		c18Package(c, "pkg:"+corpus.Rel(dir)+"/nil-importer", srcs, false)
		c18Package(c, "pkg:"+corpus.Rel(dir)+"/fake-importer", srcs, true)
	}
	// generated packages with clashes
	gens := c.Pick(60, 3000)
	for g := 0; g < gens; g++ {
		i := idx
		idx++
		if !c.Mine(i) {
			continue
		}
		gr := c.Rand(fmt.Sprintf("gen/%d", g))
		srcs := map[string]string{}
		nf := 2 + gr.Intn(3)
		pool := []string{"alpha", "beta", "gamma", "clash", "T", "Println"}
		for k := 0; k < nf; k++ {
			var sb strings.Builder
			if k == nf-1 && gr.Intn(4) == 0 {
				sb.WriteString("package q\n\n") // a file that belongs to a different package
			} else {
				sb.WriteString("package p\n\n")
			}
			switch gr.Intn(12) {
			case 9:
				// one package dot-imported twice: its members reach the file scope twice, as the same objects
				sb.WriteString("import (\n\t. \"x/dot\"\n\t. \"x/dot\"\n)\n\n")
			case 10:
				// one package imported twice under two names, and once more with its own name
				sb.WriteString("import (\n\t\"x/fmt\"\n\tf2 \"x/fmt\"\n\t\"x/fmt\"\n)\n\n")
			case 11:
				sb.WriteString("import . \"x/dot\"\nimport . \"x/dot\"\nimport . \"x/dot2\"\n\n")
			case 5:
				// two dot-imported packages exporting the same names: collisions inside the file scope
				sb.WriteString("import (\n\t. \"x/dot1\"\n\t. \"x/dot2\"\n)\n\n")
			case 6:
				// two imports with the same local name
				sb.WriteString("import (\n\t\"x/a/fmt\"\n\t\"x/b/fmt\"\n)\n\n")
			case 7:
				sb.WriteString("import (\n\tfmt \"x/q\"\n\t\"x/fmt\"\n\t. \"x/dot\"\n)\n\n")
			case 8:
				// a dot-imported member that is also an import name and a package-level name
				sb.WriteString("import (\n\tclash \"x/q\"\n\t. \"x/dot\"\n)\n\n")
			case 0:
				sb.WriteString("import \"x/fmt\"\n\n")
			case 1:
				sb.WriteString("import . \"x/dot\"\n\n")
			case 2:
				sb.WriteString("import (\n\tal \"x/fmt\"\n\t_ \"x/blank\"\n)\n\n")
			case 3:
				sb.WriteString("import \"x/missing\"\n\n")
			}
			if g%6 == 5 {
				// a package that declares no named package-level object (empty package scope)
				sb.WriteString("import _ \"x/empty\"\n\nfunc init() {\n\tx := 1\n\t_ = x\n}\n\nvar _ = len(\"a\")\n\nfunc (r recv) m() int { return undeclared }\n")
				srcs[fmt.Sprintf("g%d.go", k)] = sb.String()
				continue
			}
			for j := 0; j < 2+gr.Intn(4); j++ {
				n := pool[gr.Intn(len(pool))]
				switch gr.Intn(4) {
				case 0:
					fmt.Fprintf(&sb, "func %s() int {\n\treturn len(%s) + undeclared%d + fmt.Println\n}\n\n", n, pool[gr.Intn(len(pool))], j)
				case 1:
					fmt.Fprintf(&sb, "var %s = %s\n\n", n, pool[gr.Intn(len(pool))])
				case 2:
					fmt.Fprintf(&sb, "type %s struct{ f %s }\n\n", n, pool[gr.Intn(len(pool))])
				case 3:
					fmt.Fprintf(&sb, "const (\n\t%s = iota\n\t%sB\n)\n\n", n, n)
				}
			}
			srcs[fmt.Sprintf("g%d.go", k)] = sb.String()
		}
		c18Package(c, fmt.Sprintf("gen:%d/nil-importer", g), srcs, false)
		c18Package(c, fmt.Sprintf("gen:%d/fake-importer", g), srcs, true)
	}
}
