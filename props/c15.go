package props

import (
	"bytes"
	"fmt"
	"go/parser"
	"go/token"
	"os"
	"path/filepath"
	"strings"

	"github.com/dave/dst"
	"github.com/dave/dst/decorator"
	"github.com/dave/dst/decorator/resolver/goast"
	"github.com/dave/dst/decorator/resolver/guess"

	"verif/internal/corpus"
	"verif/internal/fw"
	"verif/internal/gen"
	"verif/internal/obs"
)

func init() {
	fw.Register(&fw.Check{
		ID:    "C15",
		Level: "exploration",
		Rule: "cases: seeded byte-level corruptions (13 kinds, biased to structure-bearing bytes; half keep the package clause intact) of corpus files, plus a fixed " +
			"hostile list (empty, whitespace, comment only, no package clause, NUL, invalid UTF-8, unterminated literals, deep nesting, very long line), plus go/parser " +
			"and go/printer testdata. Each input goes through decorator.Parse, Decorator.ParseFile (named, caller file set), and, when a tree is returned, Fprint / RestoreFile; " +
			"a sample goes through ParseDir. Monitors: recover() around every dst call, worker-death attribution through the journal, (nil,nil) results, error returned " +
			"whenever go/parser reports one. distinct_nontrivial = distinct input hashes that go/parser rejects (error path actually taken).",
		Floor: 2000,
		Run:   runC15,
		Assumptions: []string{
			"a panic inside go/parser or go/format that dst merely propagates still counts (the statement is about dst's entry points)",
			"only the byte strings generated are covered",
		},
		Required: map[string]int{"corruption_kinds": 10, "outcomes": 3},
	})
}

func hostileInputs() map[string][]byte {
	m := map[string][]byte{
		"empty":                {},
		"space":                []byte("   \n\t\n"),
		"comment-only":         []byte("// just a comment\n"),
		"block-comment-only":   []byte("/* c */"),
		"no-package":           []byte("func main(){}\n"),
		"package-alone":        []byte("package"),
		"package-newline":      []byte("package\n"),
		"package-semi":         []byte("package;"),
		"package-number":       []byte("package 1\n"),
		"bom-only":             []byte("\xef\xbb\xbf"),
		"bom-package":          []byte("\xef\xbb\xbfpackage p\n"),
		"nul":                  []byte("package p\x00\nvar x int\n"),
		"nul-first":            []byte("\x00package p\n"),
		"bad-utf8":             []byte("package p\nvar s = \"\xff\xfe\"\n// \xc3\x28\n"),
		"unterminated-string":  []byte("package p\nvar s = \"abc\n"),
		"unterminated-raw":     []byte("package p\nvar s = `abc\n\n"),
		"unterminated-comment": []byte("package p\n/* abc\n\nvar x int\n"),
		"unterminated-rune":    []byte("package p\nvar r = 'a\n"),
		"garbage":              []byte("\x01\x02\x03\xff\xfe}{)(]["),
		"only-braces":          []byte("}}}}{{{{"),
		"package-then-garbage": []byte("package p\n}}}}{{{{ ) ( ] [ \n"),
		"import-broken":        []byte("package p\nimport (\n\"a\n)\n"),
		"import-nonstring":     []byte("package p\nimport x\n"),
		"func-no-body-brace":   []byte("package p\nfunc f() {\n"),
		"stmt-outside":         []byte("package p\nx := 1\nfor {}\n"),
		"label-only":           []byte("package p\nfunc f(){ L: }\n"),
		"crlf":                 []byte("package p\r\n\r\nvar x int\r\n"),
		"cr-only":              []byte("package p\rvar x int\r"),
		"generic-broken":       []byte("package p\nfunc f[T any, (x T) {}\n"),
		"case-outside":         []byte("package p\nfunc f(){ case 1: }\n"),
		"else-dangling":        []byte("package p\nfunc f(){ else {} }\n"),
		"type-broken":          []byte("package p\ntype T struct { a int; b }\ntype U interface { ~int | ; }\n"),
		"two-packages":         []byte("package p\npackage q\n"),
		"line-directive-huge":  []byte("package p\n//line x.go:999999999\nvar x int\n/*line :0*/ var y int\n"),
	}
	deep := func(n int, open, close string) []byte {
		return []byte("package p\nvar x = " + strings.Repeat(open, n) + "1" + strings.Repeat(close, n) + "\n")
	}
	m["deep-parens-2000"] = deep(2000, "(", ")")
	m["deep-parens-50000"] = deep(50000, "(", ")")
	m["deep-unbalanced-50000"] = []byte("package p\nvar x = " + strings.Repeat("(", 50000))
	m["deep-braces-20000"] = []byte("package p\nfunc f() " + strings.Repeat("{", 20000) + strings.Repeat("}", 20000) + "\n")
	m["deep-index-20000"] = []byte("package p\nvar x = a" + strings.Repeat("[0", 20000) + strings.Repeat("]", 20000) + "\n")
	m["deep-unary-100000"] = []byte("package p\nvar x = " + strings.Repeat("-", 100000) + "1\n")
	m["long-line-1MB"] = []byte("package p\nvar s = \"" + strings.Repeat("a", 1<<20) + "\"\n")
	m["many-lines"] = []byte("package p\n" + strings.Repeat("\n", 200000) + "var x int\n")
	m["many-comments"] = []byte("package p\n" + strings.Repeat("/*c*/ ", 50000) + "var x int\n")
	return m
}

// c15One pushes one input through the entry points under recover().
func c15One(c *fw.Ctx, kind string, src []byte) {
	_, perr := parser.ParseFile(token.NewFileSet(), "", src, parser.ParseComments)
	if perr != nil {
		c.Nontrivial(string(src))
	}
	var sharedFset *token.FileSet // the caller's file set of the explicit entry point
	type ep struct {
		name string
		call func() (*dst.File, error)
	}
	eps := []ep{
		{"decorator.Parse", func() (*dst.File, error) { return decorator.Parse(src) }},
		{"Decorator.ParseFile", func() (*dst.File, error) {
			fset := token.NewFileSet()
			fset.AddFile("pad", -1, 77)
			sharedFset = fset
			return decorator.NewDecorator(fset).ParseFile("in.go", src, parser.AllErrors)
		}},
		{"Decorator(zero-value goast).Parse", func() (*dst.File, error) {
			// resolvers made as literals: the documented fallback to the guessing resolver applies
			if len(src)%2 == 0 {
				return decorator.NewDecoratorWithImports(token.NewFileSet(), "example.com/self", &goast.DecoratorResolver{}).Parse(src)
			}
			return decorator.NewDecoratorWithImports(token.NewFileSet(), "example.com/self", goast.WithResolver(nil)).Parse(src)
		}},
		{"Decorator(goast).Parse", func() (*dst.File, error) {
			// the import-resolving decorator reads the import declarations of the (possibly broken) file
			return decorator.NewDecoratorWithImports(token.NewFileSet(), "example.com/self", goast.New()).Parse(src)
		}},
	}
	for _, e := range eps {
		var f *dst.File
		var err error
		if sig, detail := fw.Try(func() { f, err = e.call() }); sig != "" {
			c.Violate("panic/"+e.name, sig, "corruption="+kind+"\n"+detail, string(src))
			c.Observe("outcomes", "panic")
			continue
		}
		switch {
		case f == nil && err == nil:
			c.Violate("nil-nil/"+e.name, "nil-nil:"+e.name, "corruption="+kind+": returned (nil, nil)", string(src))
		case f == nil:
			c.Observe("outcomes", "error-only")
			c.Count("outcome:error-only", 1)
		case err != nil:
			c.Observe("outcomes", "tree+error")
			c.Count("outcome:tree+error", 1)
		default:
			c.Observe("outcomes", "tree")
			c.Count("outcome:tree", 1)
		}
		if perr != nil && err == nil {
			c.Violate("error-not-reported/"+e.name, "error-not-reported:"+e.name, "corruption="+kind+": go/parser reports "+shortErr(perr)+" but dst returned no error", string(src))
		}
		if f == nil {
			continue
		}
		dst.Inspect(f, func(n dst.Node) bool {
			switch n.(type) {
			case *dst.BadDecl:
				c.Observe("bad_nodes", "BadDecl")
			case *dst.BadStmt:
				c.Observe("bad_nodes", "BadStmt")
			case *dst.BadExpr:
				c.Observe("bad_nodes", "BadExpr")
			}
			return true
		})
		// printing a returned tree must not panic (an error is fine); a tree decorated with import
		// management is printed with import management (printing it without is documented misuse)
		var buf bytes.Buffer
		if e.name == "Decorator(goast).Parse" || e.name == "Decorator(zero-value goast).Parse" {
			if sig, detail := fw.Try(func() {
				_ = decorator.NewRestorerWithImports("example.com/self", guess.New()).Fprint(&buf, f)
			}); sig != "" {
				c.Violate("panic/Fprint-with-imports", sig, "corruption="+kind+"\n"+detail, string(src))
			}
			c.Count("printed_with_imports", 1)
			continue
		}
		if sig, detail := fw.Try(func() { _ = decorator.Fprint(&buf, f) }); sig != "" {
			c.Violate("panic/Fprint", sig, "corruption="+kind+" (tree from "+e.name+")\n"+detail, string(src))
			continue
		}
		c.Count("printed", 1)
		if sig, detail := fw.Try(func() {
			r := decorator.NewRestorer()
			r.Extras = true
			_, _ = r.RestoreFile(f)
		}); sig != "" {
			c.Violate("panic/RestoreFile-extras", sig, "corruption="+kind+"\n"+detail, string(src))
		}
		// a second pass: the ast the restorer made is decorated again (on the restorer's file set)
		// and printed again
		if e.name == "decorator.Parse" && (c.Quick() || len(src)%3 == 0) {
			if sig, detail := fw.Try(func() {
				r := decorator.NewRestorer()
				af, err := r.RestoreFile(dst.Clone(f).(*dst.File))
				if err != nil || af == nil {
					return
				}
				f2, err := decorator.NewDecorator(r.Fset).DecorateFile(af)
				if err != nil || f2 == nil {
					return
				}
				var b bytes.Buffer
				_ = decorator.Fprint(&b, f2)
			}); sig != "" {
				c.Violate("panic/redecorate-restored-ast", sig, "corruption="+kind+"\n"+detail, string(src))
			}
			c.Count("second_passes", 1)
		}
		// printing into the caller's own file set (which already holds files), twice with one restorer
		if e.name == "Decorator.ParseFile" && sharedFset != nil {
			if sig, detail := fw.Try(func() {
				r := decorator.NewRestorer()
				r.Fset = sharedFset
				var b1, b2 bytes.Buffer
				_ = r.Fprint(&b1, f)
				_ = r.Fprint(&b2, dst.Clone(f).(*dst.File))
			}); sig != "" {
				c.Violate("panic/Fprint-into-shared-fileset", sig, "corruption="+kind+"\n"+detail, string(src))
			}
			// one FileRestorer (reset by every RestoreFile) prints the tree and a copy of it
			if sig, detail := fw.Try(func() {
				fr := decorator.NewRestorer().FileRestorer()
				var b1, b2 bytes.Buffer
				_ = fr.Fprint(&b1, f)
				_ = fr.Fprint(&b2, dst.Clone(f).(*dst.File))
			}); sig != "" {
				c.Violate("panic/Fprint-with-reused-FileRestorer", sig, "corruption="+kind+"\n"+detail, string(src))
			}
			c.Count("printed_into_shared_fileset", 1)
		}
	}
}

func runC15(c *fw.Ctx) {
	// fixed hostile list
	idx := 0
	hl := hostileInputs()
	var names []string
	for k := range hl {
		names = append(names, k)
	}
	sortStrings(names)
	for _, k := range names {
		i := idx
		idx++
		if !c.Mine(i) {
			continue
		}
		src := hl[k]
		c.Case("hostile:"+k, func() {
			c.Observe("corruption_kinds", "hostile")
			c.Count("inputs:hostile", 1)
			c15One(c, "hostile:"+k, src)
		})
	}

	// corpus corruptions
	r := c.Rand("files")
	files := corpus.Sample(r, c.Pick(500, 6000))
	per := c.Pick(24, 60)
	for i, p := range files {
		if !c.Mine(i) {
			continue
		}
		src := readFile(p)
		if src == nil || len(src) > 150000 {
			continue
		}
		other := readFile(files[(i+7)%len(files)])
		for k := 0; k < per; k++ {
			kr := c.Rand(fmt.Sprintf("corrupt/%s/%d", p, k))
			bad, kind := gen.Corrupt(kr, src, other, k%2 == 0)
			id := fmt.Sprintf("corrupt:%s/%d", corpus.Rel(p), k)
			c.Case(id, func() {
				c.Observe("corruption_kinds", kind)
				c.Count("inputs:"+kind, 1)
				if k == 0 {
					c.Sample(map[string]interface{}{"case": id, "kind": kind, "bytes": len(bad)})
				}
				c15One(c, kind, bad)
			})
		}
	}

	// every token boundary of the construct snippets: a block comment, a line comment, a line break
	// and (thorough) a truncation placed directly before each token in turn. Valid or not, the
	// entry points must answer with a tree or an error.
	zoo := layoutZoo()
	var zn []string
	for k := range zoo {
		zn = append(zn, k)
	}
	sortStrings(zn)
	zi := 0
	for _, k := range zn {
		src := []byte(zoo[k])
		toks, _ := obs.Scan(src)
		inserts := []struct{ kind, text string }{{"tokgap:block-comment", "/*c*/"}, {"tokgap:line-comment", "//c\n"}, {"tokgap:newline", "\n"}, {"tokgap:truncate-after-line-comment", "//c\n\x00"}}
		for ti, t := range toks {
			if t.Tok == token.SEMICOLON && t.Lit == "\n" {
				continue
			}
			for _, ins := range inserts {
				i := zi
				zi++
				if !c.Mine(i) || (c.Quick() && (ti+len(k))%3 != 0) {
					continue
				}
				var bad []byte
				if strings.HasSuffix(ins.text, "\x00") {
					bad = append(append([]byte{}, src[:t.Off]...), ins.text[:len(ins.text)-1]...)
				} else {
					bad = append(append(append([]byte{}, src[:t.Off]...), ins.text...), src[t.Off:]...)
				}
				id := fmt.Sprintf("tokgap:%s/%d/%s", k, ti, ins.kind)
				c.Case(id, func() {
					c.Observe("corruption_kinds", ins.kind)
					c.Count("inputs:"+ins.kind, 1)
					c.Observe("tokgap_before_token", t.Tok.String())
					c15One(c, ins.kind, bad)
				})
			}
		}
	}

	// uncorrupted testdata of go/parser and go/printer (many are deliberately odd)
	tdi := 0
	for _, p := range corpus.Files() {
		if !(strings.Contains(p, "/go/parser/testdata/") || strings.Contains(p, "/go/printer/testdata/") || strings.Contains(p, "/go/types/testdata/") || strings.Contains(p, "/internal/types/testdata/")) {
			continue
		}
		i := tdi
		tdi++
		if !c.Mine(i) || (c.Quick() && i%4 != 0) {
			continue
		}
		src := readFile(p)
		if src == nil {
			continue
		}
		c.Case("testdata:"+corpus.Rel(p), func() {
			c.Observe("corruption_kinds", "testdata")
			c.Count("inputs:testdata", 1)
			c15One(c, "testdata", src)
		})
	}

	// ParseDir over directories of corrupted files
	nd := c.Pick(40, 600)
	for d := 0; d < nd; d++ {
		if !c.Mine(d) {
			continue
		}
		id := fmt.Sprintf("parsedir:%d", d)
		c.Case(id, func() {
			dr := c.Rand(id)
			dir := filepath.Join(c.WorkDir, fmt.Sprintf("pd%d", d))
			os.MkdirAll(dir, 0755)
			defer os.RemoveAll(dir)
			nf := 1 + dr.Intn(4)
			for k := 0; k < nf; k++ {
				p := files[dr.Intn(len(files))]
				src := readFile(p)
				if src == nil || len(src) > 100000 {
					continue
				}
				if dr.Intn(3) > 0 {
					src, _ = gen.Corrupt(dr, src, nil, dr.Intn(2) == 0)
				}
				os.WriteFile(filepath.Join(dir, fmt.Sprintf("f%d.go", k)), src, 0644)
			}
			if dr.Intn(4) == 0 {
				os.WriteFile(filepath.Join(dir, "empty.go"), nil, 0644)
			}
			c.Observe("corruption_kinds", "parsedir")
			c.Count("inputs:parsedir", 1)
			var pkgs map[string]*dst.Package
			var err error
			if sig, detail := fw.Try(func() { pkgs, err = decorator.ParseDir(token.NewFileSet(), dir, nil, 0) }); sig != "" {
				c.Violate("panic/ParseDir", sig, detail, dir)
				return
			}
			if pkgs == nil && err == nil {
				c.Violate("nil-nil/ParseDir", "nil-nil:ParseDir", "ParseDir returned (nil, nil)", "")
			}
			for _, pk := range pkgs {
				for _, f := range pk.Files {
					var buf bytes.Buffer
					if sig, detail := fw.Try(func() { _ = decorator.Fprint(&buf, f) }); sig != "" {
						c.Violate("panic/Fprint-after-ParseDir", sig, detail, "")
					}
				}
			}
			// the same directory through an import-resolving decorator
			var ipkgs map[string]*dst.Package
			if sig, detail := fw.Try(func() {
				ipkgs, err = decorator.NewDecoratorWithImports(token.NewFileSet(), "example.com/self", goast.New()).ParseDir(dir, nil, 0)
			}); sig != "" {
				c.Violate("panic/Decorator(goast).ParseDir", sig, detail, dir)
				return
			}
			c.Count("inputs:parsedir-with-imports", 1)
			for _, pk := range ipkgs {
				for _, f := range pk.Files {
					var buf bytes.Buffer
					if sig, detail := fw.Try(func() {
						_ = decorator.NewRestorerWithImports("example.com/self", guess.New()).Fprint(&buf, f)
					}); sig != "" {
						c.Violate("panic/Fprint-with-imports-after-ParseDir", sig, detail, "")
					}
				}
			}
		})
	}
}
