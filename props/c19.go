package props

import (
	"bytes"
	"fmt"
	"github.com/dave/dst/decorator/resolver/goast"
	"github.com/dave/dst/decorator/resolver/guess"
	"go/token"
	"io"
	"reflect"
	"sort"
	"strings"
	"unsafe"

	"github.com/dave/dst"
	"github.com/dave/dst/decorator"

	"verif/internal/fw"
	"verif/internal/obs"
	"verif/internal/refl"
)

func init() {
	fw.Register(&fw.Check{
		ID:    "C19",
		Level: "exploration",
		Rule: "cases: seeded histories of 1-30 operations from {Append, Prepend, Replace, Clear, All, caller overwrites an earlier argument slice in place, caller appends into the " +
			"spare capacity of an earlier argument, caller writes through the slice returned by All, Append/Prepend/Replace whose argument is a sub-slice of All(), caller keeps the result of All() and later passes it back as an argument} on one dst.Decorations; arguments are sub-slices of a shared arena with " +
			"seeded spare capacity (also nil and empty variadics). A []string reference model is stepped in lock-step; the arena is snapshotted around every call (whole " +
			"arg[:cap(arg)]); at the end (every 10th history) the list is attached to one of 28 decoration points of a parsed file (statement, value / type / import spec, field, function declaration, call, case clause, and Start / X / End of a package-qualified identifier restored with import management), printed, and the comment stream of the output is compared with " +
			"All(). distinct_nontrivial = distinct (operation-kind sequence) hashes of length >= 3.",
		Floor: 5000,
		Run:   runC19,
		Assumptions: []string{
			"a slice returned by All() and kept by the caller is only ever changed by the caller's own writes: no later Append/Prepend/Replace/Clear writes into its elements (otherwise All, Clear, Append(x), Append(kept...) would not give x followed by the old contents, as it does for an ordered list of strings)",
			"'never retain the caller's argument slice' is checked as: a later write by the caller through the argument slice (anywhere in arg[:cap(arg)]) does not change All()",
			"a write by the caller through the slice returned by All() may or may not be visible afterwards (the statement does not say whether All is a view or a copy): the model follows what the implementation shows, and both outcomes are counted",
		},
		Required: map[string]int{"op_kinds": 8},
	})
}

type c19Arg struct {
	sl []string // the slice handed to dst (aliases the arena)
}

func runC19(c *fw.Ctx) {
	// every render point x a fixed set of lists built with the list operations (block, two-line
	// block and line comments separated or not by explicit line breaks)
	if c.Shard == 0 {
		patterns := [][]string{
			{"/*p1\n   second line*/", "\n", "//p2"},
			{"/*p1*/", "\n", "/*p2*/"},
			{"//p1", "/*p2*/"},
			{"/*p1\n   second line*/", "/*p2*/", "\n", "/*p3*/"},
			{"\n", "/*p1\n   second line*/", "\n", "\n", "//p2"},
		}
		for where := 0; where < 31; where++ {
			for pi, pat := range patterns {
				id := fmt.Sprintf("fixed:%d/%d", where, pi)
				c.Case(id, func() {
					var d dst.Decorations
					d.Append(pat[0])
					d.Append(pat[1:]...)
					d.Prepend()
					fail := func(rule, detail string) { c.Violate(rule, rule, id+": "+detail, "") }
					c19Render(c, id, where, false, d, fail)
					c19Render(c, id, where, true, d, fail)
				})
			}
		}
	}
	// the lists of a freshly decorated tree are lists of their own: no two of them (reached through
	// any field, File.Imports included) live in one backing array, so that an operation on one can
	// never show in another
	zoo := layoutZoo()
	var zk []string
	for k := range zoo {
		zk = append(zk, k)
	}
	sort.Strings(zk)
	for zi, k := range zk {
		if !c.Mine(zi) {
			continue
		}
		id := "decorated-lists:" + k
		c.Case(id, func() {
			f, err := decorator.Parse(zoo[k])
			if err != nil {
				return
			}
			c19Disjoint(c, id, f, zoo[k])
			d2 := decorator.NewDecoratorWithImports(token.NewFileSet(), "example.com/self", goast.New())
			if f2, err := d2.Parse(zoo[k]); err == nil {
				c19Disjoint(c, id+" [imports]", f2, zoo[k])
			}
		})
	}
	n := c.Pick(60000, 3000000)
	for i := 0; i < n; i++ {
		if !c.Mine(i) {
			continue
		}
		id := fmt.Sprintf("hist:%d", i)
		c.Case(id, func() { c19History(c, id, i) })
	}
}

func c19History(c *fw.Ctx, id string, i int) {
	r := c.Rand(id)
	arena := make([]string, 64)
	next := 0
	fresh := func() string {
		next++
		switch (next*7 + i) % 16 {
		case 0:
			return "\n" // an explicit line break is a decoration like any other
		case 1, 2:
			return fmt.Sprintf("//%d.%d", i, next)
		case 3:
			return fmt.Sprintf("/*%d.%d\n   second line*/", i, next) // a block comment over two lines
		}
		return fmt.Sprintf("/*%d.%d*/", i, next)
	}
	for k := range arena {
		arena[k] = fresh()
	}
	var d dst.Decorations
	// some histories start from a list with spare capacity of its own
	if r.Intn(3) == 0 {
		base := make([]string, 0, 8)
		base = append(base, fresh(), fresh())
		d = dst.Decorations(base)
	}
	model := append([]string(nil), d...)
	var args []c19Arg
	var kinds []string
	nops := 1 + r.Intn(30)
	pickArg := func() []string {
		switch r.Intn(8) {
		case 0:
			return nil
		case 1:
			return []string{}
		}
		lo := r.Intn(len(arena) - 8)
		ln := r.Intn(5)
		cp := ln + r.Intn(4)
		return arena[lo : lo+ln : lo+cp]
	}
	fail := func(rule, detail string) {
		c.Violate(rule, rule, fmt.Sprintf("history %s ops=%v: %s", id, kinds, detail), "")
	}
	// slices obtained from All() and kept by the caller: list operations never write into them
	// (only the caller's own writes do), so a snapshot taken when the caller last touched them must
	// still read the same after any later list operation
	type heldT struct{ sl, snap []string }
	var held []heldT
	refreshHeld := func() {
		for h := range held {
			held[h].snap = append([]string(nil), held[h].sl...)
		}
	}
	checkHeld := func(kind string) {
		for h := range held {
			if !sameList(held[h].sl, held[h].snap) {
				fail("returned-slice-modified", fmt.Sprintf("%s changed a slice that All() had returned earlier: it read %v, now reads %v", kind, held[h].snap, held[h].sl))
				held[h].snap = append([]string(nil), held[h].sl...)
			}
		}
	}
	for op := 0; op < nops; op++ {
		k := r.Intn(13)
		var kind string
		switch k {
		case 0, 1, 2:
			arg := pickArg()
			before := append([]string(nil), arena...)
			argCopy := append([]string(nil), arg...)
			switch k {
			case 0:
				kind = "Append"
				d.Append(arg...)
				model = append(append([]string(nil), model...), argCopy...)
			case 1:
				kind = "Prepend"
				d.Prepend(arg...)
				model = append(append([]string(nil), argCopy...), model...)
			case 2:
				kind = "Replace"
				d.Replace(arg...)
				model = append([]string(nil), argCopy...)
			}
			if !reflect.DeepEqual(before, arena) {
				fail("argument-modified", kind+" changed the caller's arena")
			}
			if arg != nil {
				args = append(args, c19Arg{arg})
			}
		case 3:
			kind = "Clear"
			d.Clear()
			model = nil
		case 4:
			kind = "All"
			got := d.All()
			if !sameList(got, model) {
				fail("model-mismatch", fmt.Sprintf("All()=%v model=%v", got, model))
			}
		case 5:
			kind = "caller-overwrites-arg"
			if len(args) > 0 {
				a := args[r.Intn(len(args))].sl
				for j := range a {
					a[j] = fresh()
				}
			}
		case 6:
			kind = "caller-appends-into-arg-capacity"
			if len(args) > 0 {
				a := args[r.Intn(len(args))].sl
				full := a[:cap(a)]
				for j := len(a); j < len(full); j++ {
					full[j] = fresh()
				}
				_ = append(a, fresh())
			}
		case 7:
			kind = "caller-writes-through-All"
			got := d.All()
			if len(got) > 0 {
				j := r.Intn(len(got))
				v := fmt.Sprintf("/*w%d.%d*/", i, op)
				got[j] = v
				// All() of the current code is a view of the node's own storage, so the write is
				// visible; the statement does not demand that (a copy would satisfy it as well), so
				// the model follows whichever of the two the implementation does
				if now := d.All(); len(now) == len(model) && now[j] == v {
					model[j] = v
					c.Count("all_is_a_view", 1)
				} else {
					c.Count("all_is_a_copy", 1)
				}
			}
		case 9:
			// the caller passes a view of the list itself (a sub-slice of All()) as the argument:
			// it is still "the caller's argument slice" and must read the same after the call
			cur := d.All()
			if len(cur) == 0 {
				kind = "self-arg-empty"
				break
			}
			lo := r.Intn(len(cur))
			hi := lo + 1 + r.Intn(len(cur)-lo)
			arg := cur[lo:hi]
			argCopy := append([]string(nil), arg...)
			switch r.Intn(3) {
			case 0:
				kind = "Append(All()[i:j])"
				d.Append(arg...)
				model = append(append([]string(nil), model...), argCopy...)
			case 1:
				kind = "Prepend(All()[i:j])"
				d.Prepend(arg...)
				model = append(append([]string(nil), argCopy...), model...)
			case 2:
				kind = "Replace(All()[i:j])"
				d.Replace(arg...)
				model = append([]string(nil), argCopy...)
			}
			if !sameList(arg, argCopy) {
				fail("argument-modified", fmt.Sprintf("%s changed the caller's argument slice: before %v, after %v", kind, argCopy, arg))
			}
		case 12:
			// the list lives on a node that is cloned: the clone's list is a list of its own
			kind = "node-cloned"
			holders := []func(dst.Decorations) (dst.Node, func(dst.Node) *dst.Decorations){
				func(x dst.Decorations) (dst.Node, func(dst.Node) *dst.Decorations) {
					n := &dst.FuncDecl{Name: dst.NewIdent("f"), Type: &dst.FuncType{}}
					n.Decs.Start = x
					return n, func(m dst.Node) *dst.Decorations { return &m.(*dst.FuncDecl).Decs.Start }
				},
				func(x dst.Decorations) (dst.Node, func(dst.Node) *dst.Decorations) {
					n := &dst.AssignStmt{Lhs: []dst.Expr{dst.NewIdent("a")}, Tok: token.ASSIGN, Rhs: []dst.Expr{dst.NewIdent("b")}}
					n.Decs.End = x
					return n, func(m dst.Node) *dst.Decorations { return &m.(*dst.AssignStmt).Decs.End }
				},
				func(x dst.Decorations) (dst.Node, func(dst.Node) *dst.Decorations) {
					n := &dst.Field{Type: dst.NewIdent("int")}
					n.Decs.Type = x
					return n, func(m dst.Node) *dst.Decorations { return &m.(*dst.Field).Decs.Type }
				},
				func(x dst.Decorations) (dst.Node, func(dst.Node) *dst.Decorations) {
					n := dst.NewIdent("x")
					n.Decs.X = x
					return n, func(m dst.Node) *dst.Decorations { return &m.(*dst.Ident).Decs.X }
				},
			}
			node, at := holders[r.Intn(len(holders))](d)
			cl := dst.Clone(node)
			cd := at(cl)
			if !sameList(cd.All(), model) {
				fail("clone-differs", fmt.Sprintf("the cloned node's list is %v, the original's %v", cd.All(), model))
			}
			cv, dv := fresh(), fresh()
			cd.Append(cv)
			at(node).Append(dv)
			d = *at(node)
			wantClone := append(append([]string(nil), model...), cv)
			model = append(append([]string(nil), model...), dv)
			if !sameList(cd.All(), wantClone) {
				fail("clone-shares-list", fmt.Sprintf("after appending %q to the clone's list and %q to the original's, the clone's list reads %v (want %v)", cv, dv, cd.All(), wantClone))
			}
		case 10:
			kind = "caller-keeps-All()"
			if cur := d.All(); len(cur) > 0 && len(held) < 4 {
				held = append(held, heldT{cur, append([]string(nil), cur...)})
			}
		case 11:
			// a slice kept from an earlier All() comes back as an argument
			if len(held) == 0 {
				kind = "kept-arg-none"
				break
			}
			arg := held[r.Intn(len(held))].sl
			argCopy := append([]string(nil), arg...)
			switch r.Intn(3) {
			case 0:
				kind = "Append(kept)"
				d.Append(arg...)
				model = append(append([]string(nil), model...), argCopy...)
			case 1:
				kind = "Prepend(kept)"
				d.Prepend(arg...)
				model = append(append([]string(nil), argCopy...), model...)
			case 2:
				kind = "Replace(kept)"
				d.Replace(arg...)
				model = append([]string(nil), argCopy...)
			}
			if !sameList(arg, argCopy) {
				fail("argument-modified", fmt.Sprintf("%s changed the caller's argument slice: before %v, after %v", kind, argCopy, arg))
			}
		case 8:
			kind = "Append-one"
			v := fresh()
			d.Append(v)
			model = append(append([]string(nil), model...), v)
		}
		switch k {
		case 5, 6, 7:
			refreshHeld() // the caller's own writes may legitimately show through a kept slice
		default:
			checkHeld(kind)
		}
		kinds = append(kinds, kind)
		c.Observe("op_kinds", kind)
		c.Count("ops", 1)
		if got := d.All(); !sameList(got, model) {
			fail("model-mismatch", fmt.Sprintf("after %s: All()=%v model=%v", kind, got, model))
			return
		}
		c.Max("list_len", int64(len(model)))
	}
	if len(kinds) >= 3 {
		c.Nontrivial(strings.Join(kinds, ","))
	}
	if i%10 == 0 {
		c19Render(c, id, r.Intn(1000), r.Intn(3) == 0, d, fail)
	}
	if i < 40 {
		c.Sample(map[string]interface{}{"case": id, "ops": kinds, "final": model})
	}
}

// c19Disjoint collects every decoration list reachable from a tree by reflection (all fields, not
// only the ones the walk follows) and requires their backing arrays to be pairwise disjoint.
func c19Disjoint(c *fw.Ctx, id string, root dst.Node, src string) {
	type span struct {
		lo, hi uintptr
		where  string
		hdr    uintptr
	}
	var spans []span
	seenPtr := map[uintptr]bool{}
	seenHdr := map[uintptr]bool{}
	decsType := reflect.TypeOf(dst.Decorations{})
	var walk func(v reflect.Value, where string, depth int)
	walk = func(v reflect.Value, where string, depth int) {
		if depth > 200 {
			return
		}
		switch v.Kind() {
		case reflect.Ptr, reflect.Interface:
			if v.IsNil() {
				return
			}
			if v.Kind() == reflect.Ptr {
				if seenPtr[v.Pointer()] {
					return
				}
				seenPtr[v.Pointer()] = true
			}
			walk(v.Elem(), where, depth+1)
		case reflect.Struct:
			for i := 0; i < v.NumField(); i++ {
				walk(v.Field(i), where+"."+v.Type().Field(i).Name, depth+1)
			}
		case reflect.Slice:
			if v.Type() == decsType {
				if v.CanAddr() && v.Cap() > 0 {
					h := v.Addr().Pointer()
					if !seenHdr[h] {
						seenHdr[h] = true
						spans = append(spans, span{v.Pointer(), v.Pointer() + uintptr(v.Cap())*unsafe.Sizeof(""), where, h})
					}
				}
				return
			}
			for i := 0; i < v.Len(); i++ {
				walk(v.Index(i), fmt.Sprintf("%s[%d]", where, i), depth+1)
			}
		case reflect.Map:
			for _, k := range v.MapKeys() {
				walk(v.MapIndex(k), where+"[...]", depth+1)
			}
		}
	}
	walk(reflect.ValueOf(root), refl.TypeName(root), 0)
	sort.Slice(spans, func(i, j int) bool { return spans[i].lo < spans[j].lo })
	for i := 1; i < len(spans); i++ {
		if spans[i].lo < spans[i-1].hi {
			c.Violate("lists-share-storage", "lists-share-storage", fmt.Sprintf("%s: the decoration lists at %s and %s of a freshly decorated tree live in one backing array", id, spans[i-1].where, spans[i].where), src)
			return
		}
	}
	c.Count("decorated_lists_checked", int64(len(spans)))
	if len(spans) > 3 {
		c.Nontrivial(id)
	}
}

// c19Sentinels re-homes every decoration list of a tree in a backing array with three spare slots
// that hold a sentinel; the returned function reports the first slot that no longer does.
func c19Sentinels(root dst.Node) func() string {
	const sentinel = "\x00sentinel"
	type rec struct {
		full  []string
		n     int
		where string
	}
	var recs []rec
	dst.Inspect(root, func(n dst.Node) bool {
		if n == nil {
			return false
		}
		v := reflect.ValueOf(n).Elem().FieldByName("Decs")
		if !v.IsValid() {
			return true
		}
		forEachDecs(v, func(name string, d *dst.Decorations) {
			ln := len(*d)
			buf := make([]string, ln, ln+3)
			copy(buf, *d)
			full := buf[:ln+3]
			full[ln], full[ln+1], full[ln+2] = sentinel, sentinel, sentinel
			*d = buf
			recs = append(recs, rec{full, ln, refl.TypeName(n) + "." + name})
		})
		return true
	})
	return func() string {
		for _, r := range recs {
			for k := r.n; k < len(r.full); k++ {
				if r.full[k] != sentinel {
					return fmt.Sprintf("the spare capacity of the list at %s was overwritten with %q while the tree was rendered", r.where, r.full[k])
				}
			}
		}
		return ""
	}
}

func sameList(a, b []string) bool {
	if len(a) != len(b) {
		return false
	}
	for i := range a {
		if a[i] != b[i] {
			return false
		}
	}
	return true
}

var c19BreakPoints = map[string]bool{
	"AssignStmt.Start": true, "AssignStmt.End": true, "ValueSpec.Start": true, "ValueSpec.End": true, "TypeSpec.End": true,
	"Field.Start": true, "Field.End": true, "ImportSpec.End": true, "FuncDecl.Start": true, "FuncDecl.End": true, "GenDecl.Start": true,
}

// c19Render attaches the list to a decoration point of a parsed file and checks the printed comments.
func c19Render(c *fw.Ctx, id string, where int, reused bool, d dst.Decorations, fail func(rule, detail string)) {
	f, err := decorator.Parse("package p\n\nimport \"fmt\"\n\nvar v = 1\n\ntype T struct {\n\tF int\n}\n\nfunc f() {\n\ta = b\n\tg(x, y)\n\tswitch {\n\tcase a:\n\t}\n}\n\nvar c1 chan int\n\nvar c2 <-chan int\n\nvar c3 chan<- int\n")
	if err != nil {
		return
	}
	imp := f.Decls[0].(*dst.GenDecl).Specs[0].(*dst.ImportSpec)
	vs := f.Decls[1].(*dst.GenDecl).Specs[0].(*dst.ValueSpec)
	ts := f.Decls[2].(*dst.GenDecl).Specs[0].(*dst.TypeSpec)
	fld := ts.Type.(*dst.StructType).Fields.List[0]
	fn := f.Decls[3].(*dst.FuncDecl)
	st := fn.Body.List[0].(*dst.AssignStmt)
	call := fn.Body.List[1].(*dst.ExprStmt).X.(*dst.CallExpr)
	cc := fn.Body.List[2].(*dst.SwitchStmt).Body.List[0].(*dst.CaseClause)
	targets := []struct {
		name string
		at   *dst.Decorations
	}{
		{"AssignStmt.Start", &st.Decs.Start}, {"AssignStmt.End", &st.Decs.End}, {"AssignStmt.Tok", &st.Decs.Tok},
		{"ValueSpec.End", &vs.Decs.End}, {"ValueSpec.Start", &vs.Decs.Start}, {"ValueSpec.Assign", &vs.Decs.Assign},
		{"TypeSpec.End", &ts.Decs.End}, {"TypeSpec.Name", &ts.Decs.Name},
		{"Field.End", &fld.Decs.End}, {"Field.Start", &fld.Decs.Start},
		{"ImportSpec.End", &imp.Decs.End},
		{"FuncDecl.Start", &fn.Decs.Start}, {"FuncDecl.End", &fn.Decs.End},
		{"CallExpr.Lparen", &call.Decs.Lparen}, {"Ident(arg).End", &call.Args[0].(*dst.Ident).Decs.End},
		{"CaseClause.Colon", &cc.Decs.Colon}, {"CaseClause.Case", &cc.Decs.Case},
		{"GenDecl.Start", &f.Decls[1].(*dst.GenDecl).Decs.Start},
		// the signature node nested in a function declaration has decoration points of its own
		{"FuncDecl.Type.Params", &fn.Type.Decs.Params}, {"FuncDecl.Type.Func", &fn.Type.Decs.Func},
		{"FuncDecl.Type.Start", &fn.Type.Decs.Start}, {"FuncDecl.Type.End", &fn.Type.Decs.End},
		{"FuncDecl.Params", &fn.Decs.Params}, {"FuncDecl.Name", &fn.Decs.Name}, {"FuncDecl.Func", &fn.Decs.Func},
		// the points of a channel type in each of its three directions
		{"ChanType(chan).Begin", &f.Decls[4].(*dst.GenDecl).Specs[0].(*dst.ValueSpec).Type.(*dst.ChanType).Decs.Begin},
		{"ChanType(chan).Arrow", &f.Decls[4].(*dst.GenDecl).Specs[0].(*dst.ValueSpec).Type.(*dst.ChanType).Decs.Arrow},
		{"ChanType(<-chan).Arrow", &f.Decls[5].(*dst.GenDecl).Specs[0].(*dst.ValueSpec).Type.(*dst.ChanType).Decs.Arrow},
		{"ChanType(chan<-).Arrow", &f.Decls[6].(*dst.GenDecl).Specs[0].(*dst.ValueSpec).Type.(*dst.ChanType).Decs.Arrow},
		{"ChanType(<-chan).End", &f.Decls[5].(*dst.GenDecl).Specs[0].(*dst.ValueSpec).Type.(*dst.ChanType).Decs.End},
	}
	// a package-qualified identifier under import management (rendered by the hand-written
	// identifier-to-selector expansion): its three points
	var fi *dst.File
	aliasOverride := false
	if k := where % (len(targets) + 5); k >= len(targets)+3 {
		// the alias identifier of an import spec that the import manager has to rename
		d2 := decorator.NewDecoratorWithImports(token.NewFileSet(), "example.com/self", goast.New())
		fi, err = d2.Parse("package p\n\nimport f1 \"fmt\"\n\nfunc f() {\n\tg(f1.Println, 1)\n}\n")
		if err != nil {
			return
		}
		sp, ok := fi.Decls[0].(*dst.GenDecl).Specs[0].(*dst.ImportSpec)
		if !ok || sp.Name == nil {
			return
		}
		aliasOverride = true
		if k == len(targets)+3 {
			targets = append(targets, struct {
				name string
				at   *dst.Decorations
			}{"Ident(import alias, renamed).Start", &sp.Name.Decs.Start})
		} else {
			targets = append(targets, struct {
				name string
				at   *dst.Decorations
			}{"Ident(import alias, renamed).End", &sp.Name.Decs.End})
		}
		where = len(targets) - 1
	} else if k >= len(targets) {
		d2 := decorator.NewDecoratorWithImports(token.NewFileSet(), "example.com/self", goast.New())
		fi, err = d2.Parse("package p\n\nimport \"fmt\"\n\nfunc f() {\n\tg(fmt.Println, 1)\n}\n")
		if err != nil {
			return
		}
		id, ok := fi.Decls[1].(*dst.FuncDecl).Body.List[0].(*dst.ExprStmt).X.(*dst.CallExpr).Args[0].(*dst.Ident)
		if !ok || id.Path != "fmt" {
			return
		}
		switch k - len(targets) {
		case 0:
			targets = append(targets, struct {
				name string
				at   *dst.Decorations
			}{"Ident(qualified).Start", &id.Decs.Start})
		case 1:
			targets = append(targets, struct {
				name string
				at   *dst.Decorations
			}{"Ident(qualified).X", &id.Decs.X})
		default:
			targets = append(targets, struct {
				name string
				at   *dst.Decorations
			}{"Ident(qualified).End", &id.Decs.End})
		}
		where = len(targets) - 1
	} else {
		where = k
	}
	t := targets[where%len(targets)]
	*t.at = d
	point := t.name
	var buf bytes.Buffer
	// every other rendering goes through a file restorer that has already printed another file with
	// decorations of its own
	rst := decorator.NewRestorer()
	target := f
	if fi != nil {
		rst = decorator.NewRestorerWithImports("example.com/self", guess.New())
		target = fi
	}
	fr := rst.FileRestorer()
	if aliasOverride {
		fr.Alias["fmt"] = "f2"
	}
	if reused {
		warm, err := decorator.Parse("// warm-up: package\npackage w\n\n// warm-up: doc\nfunc w() { /* warm-up: body */ }\n")
		if err != nil {
			return
		}
		if err := fr.Fprint(io.Discard, warm); err != nil {
			return
		}
		point += " [file restorer used before]"
	}
	// every list of the tree gets spare capacity filled with sentinels: rendering reads the lists,
	// it never writes into their storage
	verifySentinels := c19Sentinels(target)
	if err := fr.Fprint(&buf, target); err != nil {
		fail("render-error", point+": "+err.Error())
		return
	}
	if bad := verifySentinels(); bad != "" {
		fail("storage-written-by-render", point+": "+bad)
		return
	}
	toks, _ := obs.Scan(buf.Bytes())
	var got, want []string
	var startLine, endLine []int
	for _, t := range toks {
		if t.Tok == token.COMMENT {
			got = append(got, obs.StripSpace(t.Lit)) // go/printer re-indents the inner lines of a block comment
			startLine = append(startLine, t.Line)
			endLine = append(endLine, t.Line+strings.Count(t.Lit, "\n"))
		}
	}
	for _, x := range d.All() {
		if x != "\n" {
			want = append(want, obs.StripSpace(x))
		}
	}
	if !sameList(got, want) {
		fail("render-mismatch", fmt.Sprintf("point %s: printed comments %v, All() %v\n%s", point, got, want, buf.String()))
		return
	}
	// explicit line breaks are rendered too: a comment that follows a "\n" entry (or a line comment)
	// starts on a later line than the comment before it ends
	// (only at the points before / after a whole statement, spec, field or declaration: inside a
	// construct go/printer lays tokens out itself and need not honour a recorded line break)
	if !c19BreakPoints[t.name] {
		c.Count("rendered", 1)
		c.Observe("render_points", point)
		return
	}
	k := -1
	brk := false
	for _, x := range d.All() {
		if x == "\n" {
			brk = true
			continue
		}
		k++
		if k > 0 && brk && startLine[k] <= endLine[k-1] {
			fail("render-mismatch", fmt.Sprintf("point %s: a line break between %q and %q is not rendered\n%s", point, want[k-1], want[k], buf.String()))
			return
		}
		brk = strings.HasPrefix(x, "//")
	}
	c.Count("rendered", 1)
	c.Observe("render_points", point)
}
