package props

import (
	"bytes"
	"fmt"
	"go/ast"
	"go/format"
	"go/parser"
	"go/token"
	"reflect"
	"sort"
	"strings"

	"github.com/dave/dst"
	"github.com/dave/dst/decorator"
	"github.com/dave/dst/decorator/resolver/goast"
	"github.com/dave/dst/decorator/resolver/guess"
	"github.com/dave/dst/verifhook"

	"verif/internal/corpus"
	"verif/internal/fw"
	"verif/internal/obs"
	"verif/internal/refl"
)

func init() {
	fw.Register(&fw.Check{
		ID:    "C12",
		Level: "exploration",
		Rule: "cases: corpus trees restored (a) as parsed, (b) densely decorated (unique block comment on every attachment point, line comments/newlines on statement Start/End), " +
			"(c) with import management (synthetic selectors), (d) with Extras, each into a caller FileSet shared by a sequence of 2-12 restored files interleaved with caller AddFile " +
			"calls. Monitors: every valid token.Pos reachable in the restored ast by reflection (comments included) lies in [base, base+size] of the one file registered by this " +
			"restore; registered files are pairwise disjoint; Lines() strictly increasing and < size; File.Comments sorted and non-overlapping; restored ast and a fresh parse of the " +
			"printed text are paired in lock-step and sorting all (position field, comment) pairs by restored position must sort the fresh positions (token-token and comment-comment " +
			"strictly; a comment-token inversion is put to a dst-free gofmt calibration); printing the restored ast twice gives identical bytes. distinct_nontrivial = distinct (file, configuration) with >= 20 compared positions.",
		Floor: 150,
		Run:   runC12,
		Assumptions: []string{
			"position fields the restorer leaves NoPos are outside the statement (it speaks of positions the restorer assigns) and are only counted",
			"a comment-token inversion that gofmt itself produces when the comment is spliced textually before the token is attributed to go/printer, not to dst",
		},
		Required: map[string]int{"configs": 11},
	})
}

type posPair struct {
	r, f    token.Pos
	comment bool
	what    string
}

var posType = reflect.TypeOf(token.NoPos)

func astSeqNoComments(f *ast.File) []ast.Node {
	var seq []ast.Node
	ast.Inspect(f, func(n ast.Node) bool {
		switch n.(type) {
		case nil:
			return false
		case *ast.CommentGroup, *ast.Comment:
			return false
		}
		seq = append(seq, n)
		return true
	})
	return seq
}

// allPositions collects every token.Pos reachable from v (following pointers, slices, interfaces;
// Obj/Scope only when followObj).
func allPositions(v reflect.Value, seen map[uintptr]bool, followObj bool, fn func(p token.Pos, where string), where string) {
	if !v.IsValid() {
		return
	}
	switch v.Kind() {
	case reflect.Ptr:
		if v.IsNil() || seen[v.Pointer()] {
			return
		}
		seen[v.Pointer()] = true
		allPositions(v.Elem(), seen, followObj, fn, where)
	case reflect.Interface:
		if !v.IsNil() {
			allPositions(v.Elem(), seen, followObj, fn, where)
		}
	case reflect.Struct:
		for i := 0; i < v.NumField(); i++ {
			fnm := v.Type().Field(i).Name
			if !followObj && (fnm == "Obj" || fnm == "Scope" || fnm == "Unresolved") {
				continue
			}
			allPositions(v.Field(i), seen, followObj, fn, v.Type().Name()+"."+fnm)
		}
	case reflect.Slice:
		for i := 0; i < v.Len(); i++ {
			allPositions(v.Index(i), seen, followObj, fn, where)
		}
	case reflect.Map:
		for _, k := range v.MapKeys() {
			allPositions(v.MapIndex(k), seen, followObj, fn, where)
		}
	case reflect.Int:
		if v.Type() == posType {
			fn(token.Pos(v.Int()), where)
		}
	}
}

// c12Check restores df into fset and runs all monitors. Returns number of compared positions.
func c12Check(c *fw.Ctx, label, cfg string, r *decorator.Restorer, df *dst.File, src string) int {
	viol := func(rule, sig, detail string) {
		c.Violate(rule, sig, label+" ["+cfg+"]: "+detail, src)
	}
	fset := r.Fset
	before := map[*token.File]bool{}
	fset.Iterate(func(f *token.File) bool { before[f] = true; return true })
	var rf *ast.File
	var err error
	// hook: the restorer's cursor as seen by consecutive decoration / spacing events
	var cursors []int
	verifhook.Set(&verifhook.Handler{
		Dec:   func(nodeType, point, text string, cursor, cnl int) { cursors = append(cursors, cursor) },
		Space: func(nodeType, position string, space, newlines, cursor int) { cursors = append(cursors, cursor) },
	})
	sig, detail := fw.Try(func() {
		if c12Via != nil {
			rf, err = c12Via(df)
		} else {
			rf, err = r.RestoreFile(df)
		}
	})
	verifhook.Set(nil)
	if sig != "" {
		c.Violate("restore-panic", sig, label+" ["+cfg+"]\n"+detail, src)
		return 0
	}
	for i := 1; i < len(cursors); i++ {
		if cursors[i] < cursors[i-1] {
			viol("cursor-went-backwards", "cursor-went-backwards", fmt.Sprintf("hook event #%d sees the cursor at %d after %d", i, cursors[i], cursors[i-1]))
			break
		}
	}
	c.Count("hook_cursor_events", int64(len(cursors)))
	if err != nil {
		c.Count("inconclusive_restore_error", 1)
		return 0
	}
	var added []*token.File
	fset.Iterate(func(f *token.File) bool {
		if !before[f] {
			added = append(added, f)
		}
		return true
	})
	if len(added) != 1 {
		viol("files-registered", "files-registered", fmt.Sprintf("restore registered %d files in the file set, want exactly 1", len(added)))
		return 0
	}
	tf := added[0]
	lo, hi := token.Pos(tf.Base()), token.Pos(tf.Base()+tf.Size())
	// range
	nvalid, ninvalid := 0, 0
	allPositions(reflect.ValueOf(rf), map[uintptr]bool{}, r.Extras, func(p token.Pos, where string) {
		if !p.IsValid() {
			ninvalid++
			c.Observe("nopos_fields", where)
			return
		}
		nvalid++
		if p < lo || p > hi {
			viol("pos-out-of-file", "pos-out-of-file:"+where+extrasTag(r.Extras), fmt.Sprintf("%s = %d outside [%d,%d]", where, p, lo, hi))
		}
	}, "")
	c.Count("positions_checked", int64(nvalid))
	// overlap between files
	var files []*token.File
	fset.Iterate(func(f *token.File) bool { files = append(files, f); return true })
	sort.Slice(files, func(i, j int) bool { return files[i].Base() < files[j].Base() })
	for i := 1; i < len(files); i++ {
		if files[i-1].Base()+files[i-1].Size() >= files[i].Base() && files[i-1].Base()+files[i-1].Size() > files[i].Base() {
			viol("files-overlap", "files-overlap", fmt.Sprintf("file %q [%d,+%d] overlaps %q at %d", files[i-1].Name(), files[i-1].Base(), files[i-1].Size(), files[i].Name(), files[i].Base()))
		}
	}
	// line table
	lines := tf.Lines()
	for i := range lines {
		if i > 0 && lines[i] <= lines[i-1] {
			viol("line-table", "line-table:not-increasing", fmt.Sprintf("line %d starts at %d, line %d at %d", i, lines[i-1], i+1, lines[i]))
			break
		}
		if lines[i] >= tf.Size() && !(lines[i] == 0 && tf.Size() == 0) {
			viol("line-table", "line-table:beyond-size", fmt.Sprintf("line %d starts at %d, file size %d", i+1, lines[i], tf.Size()))
			break
		}
	}
	// comments sorted
	var prevEnd token.Pos
	for i, cg := range rf.Comments {
		if len(cg.List) == 0 {
			viol("comments", "comments:empty-group", "empty comment group")
			continue
		}
		if cg.Pos() < prevEnd {
			viol("comments", "comments:unsorted", fmt.Sprintf("comment group %d (%q) starts at %d before the previous group ends at %d", i, cg.List[0].Text, cg.Pos(), prevEnd))
			break
		}
		for j := 1; j < len(cg.List); j++ {
			if cg.List[j].Pos() < cg.List[j-1].End() {
				viol("comments", "comments:unsorted-in-group", "comments inside one group overlap")
			}
		}
		prevEnd = cg.End()
	}
	// print twice
	var b1, b2 bytes.Buffer
	if err := format.Node(&b1, fset, rf); err != nil {
		c.Count("inconclusive_format_error", 1)
		return 0
	}
	format.Node(&b2, fset, rf)
	if !bytes.Equal(b1.Bytes(), b2.Bytes()) {
		viol("print-twice", "print-twice", "printing the restored ast twice gives different bytes")
	}
	// fresh parse, lock-step
	ffset := token.NewFileSet()
	ff, perr := parser.ParseFile(ffset, "", b1.Bytes(), parser.ParseComments)
	if perr != nil {
		c.Count("inconclusive_output_does_not_parse", 1)
		return 0
	}
	if !sameImportOrder(rf, ff) {
		// format.Node sorted an import block (ast.SortImports): positions of specs and their
		// comments are permuted by go/format, the order comparison does not apply to this file
		c.Count("inconclusive_imports_sorted_by_go_format", 1)
		return 0
	}
	// extents: the operand of a selector ends before the selected name begins (there is a dot in
	// between), as in any parsed file; positions that fail this cannot be used to report where the
	// two identifiers are
	extentBad := ""
	ast.Inspect(rf, func(n ast.Node) bool {
		if se, ok := n.(*ast.SelectorExpr); ok && extentBad == "" && se.X != nil && se.Sel != nil {
			if se.X.Pos().IsValid() && se.Sel.Pos().IsValid() && se.X.End() >= se.Sel.Pos() {
				extentBad = fmt.Sprintf("selector %v.%s: operand occupies [%d,%d), the selected name starts at %d", se.X, se.Sel.Name, se.X.Pos(), se.X.End(), se.Sel.Pos())
			}
		}
		return true
	})
	if extentBad != "" {
		viol("extents-overlap", "extents-overlap:SelectorExpr", extentBad)
		return 0
	}
	rs, fs := astSeqNoComments(rf), astSeqNoComments(ff)
	if len(rs) != len(fs) {
		c.Count("inconclusive_lockstep_length", 1)
		return 0
	}
	var pairs []posPair
	for i := range rs {
		if reflect.TypeOf(rs[i]) != reflect.TypeOf(fs[i]) {
			c.Count("inconclusive_lockstep_type", 1)
			return 0
		}
		rv, fv := reflect.ValueOf(rs[i]).Elem(), reflect.ValueOf(fs[i]).Elem()
		for k := 0; k < rv.NumField(); k++ {
			if rv.Field(k).Type() != posType {
				continue
			}
			rp, fp := token.Pos(rv.Field(k).Int()), token.Pos(fv.Field(k).Int())
			name := rv.Type().Name() + "." + rv.Type().Field(k).Name
			if rp.IsValid() && fp.IsValid() {
				if name == "File.FileStart" || name == "File.FileEnd" {
					continue
				}
				pairs = append(pairs, posPair{rp, fp, false, name})
			} else if fp.IsValid() && !rp.IsValid() {
				c.Observe("left_nopos", name)
				// positions the dst model has no field or flag for stay unset; any other token of the
				// printed text must have a position in the restored ast, else it takes no part in the
				// order the property speaks of (and End() of its node falls short)
				if !c12Unmodelled[name] {
					viol("unpositioned-token", "unpositioned-token:"+name, fmt.Sprintf("%s is a token of the printed text (fresh parse: %d) but has no position in the restored ast", name, fp))
					return len(pairs)
				}
			} else if rp.IsValid() && !fp.IsValid() {
				// the restorer positioned a token that is not in the printed text at all
				viol("phantom-position", "phantom-position:"+name, fmt.Sprintf("%s has position %d in the restored ast, but a fresh parse of the printed text has no such token", name, rp))
				return len(pairs)
			}
		}
	}
	var rcs, fcs []*ast.Comment
	// go/printer reformats doc comments and in doing so adds or drops empty "//" lines, and it
	// synthesises / deletes build-constraint lines; those are not positions the restorer answers for
	for _, cg := range rf.Comments {
		for _, cm := range cg.List {
			if stripWS(cm.Text) != "//" && !buildLine.MatchString(cm.Text) {
				rcs = append(rcs, cm)
			}
		}
	}
	for _, cg := range ff.Comments {
		for _, cm := range cg.List {
			if stripWS(cm.Text) != "//" && !buildLine.MatchString(cm.Text) {
				fcs = append(fcs, cm)
			}
		}
	}
	if len(rcs) != len(fcs) {
		viol("comment-count", "comment-count", fmt.Sprintf("restored ast has %d comments, printed text has %d", len(rcs), len(fcs)))
		return len(pairs)
	}
	// pair comments by order; texts must agree up to whitespace (go/printer re-indents block comments)
	for i := range rcs {
		if stripWS(rcs[i].Text) != stripWS(fcs[i].Text) {
			// comment-comment order differs (or the printer rewrote text)
			if inImportDecl(ff, fcs[i].Slash) {
				// format.Node sorts the specs of an import block (ast.SortImports) and moves their
				// comments with them: not a property of the restored positions
				c.Count("inconclusive_imports_sorted_by_go_format", 1)
				return len(pairs)
			}
			if sameMultiset(rcs, fcs) {
				viol("comment-order", "comment-order", fmt.Sprintf("comment #%d is %q in the restored ast but %q in the printed text", i, rcs[i].Text, fcs[i].Text))
			} else {
				c.Count("inconclusive_printer_rewrote_comment_text", 1)
			}
			return len(pairs)
		}
		pairs = append(pairs, posPair{rcs[i].Slash, fcs[i].Slash, true, "comment " + rcs[i].Text})
	}
	// order isomorphism
	sort.SliceStable(pairs, func(i, j int) bool { return pairs[i].r < pairs[j].r })
	reloc := 0
	for i := 1; i < len(pairs); i++ {
		a, b := pairs[i-1], pairs[i]
		bad := false
		if a.r == b.r {
			if a.f != b.f && !(a.comment != b.comment) {
				bad = a.f != b.f
			}
			if a.comment != b.comment && a.f != b.f {
				bad = false // a comment and a token at one restored position: order is decided by the printer
			}
		} else if a.f > b.f {
			bad = true
		} else if a.f == b.f && !a.comment && !b.comment {
			bad = true // two distinct restored positions collapse to one fresh position
		}
		if !bad {
			continue
		}
		if a.comment != b.comment {
			// comment-token inversion: dst-free calibration
			cm, tk := a, b
			if b.comment {
				cm, tk = b, a
			}
			if gofmtMovesCommentBehind(b1.Bytes(), ffset, ff, cm, tk) {
				reloc++
				continue
			}
			// go/printer defers a comment group that contains a line break past the next token
			// while an automatic semicolon is pending (printer.commentBefore); when a //-comment
			// lies inside the inverted span the textual calibration cannot reproduce the grouping,
			// so the case is inconclusive rather than attributed to dst.
			if lineCommentInSpan(ff, cm.f, tk.f) {
				c.Count("inconclusive_inversion_next_to_line_comment", 1)
				continue
			}
			ctxo := ffset.File(ff.Pos()).Offset(cm.f)
			lo2, hi2 := ctxo-160, ctxo+120
			if lo2 < 0 {
				lo2 = 0
			}
			if hi2 > b1.Len() {
				hi2 = b1.Len()
			}
			if tk.what == "TypeSpec.Assign" && genericAlias.Match([]byte(src)) {
				viol("order-comment-token", "order:generic-type-alias", fmt.Sprintf("%s vs %s", cm.what, tk.what))
				break
			}
			viol("order-comment-token", "order-comment-token:"+tk.what, fmt.Sprintf("%s (restored %d, printed %d) vs %s (restored %d, printed %d)\nprinted context:\n%s", cm.what, cm.r, cm.f, tk.what, tk.r, tk.f, b1.Bytes()[lo2:hi2]))
			break
		}
		kind := "token-token"
		if a.comment {
			kind = "comment-comment"
		}
		if (a.what == "TypeSpec.Assign" || b.what == "TypeSpec.Assign") && genericAlias.Match([]byte(src)) {
			viol("order-"+kind, "order:generic-type-alias", fmt.Sprintf("%s (restored %d, printed %d) vs %s (restored %d, printed %d)", a.what, a.r, a.f, b.what, b.r, b.f))
			break
		}
		viol("order-"+kind, "order-"+kind+":"+a.what+"|"+b.what, fmt.Sprintf("%s (restored %d, printed %d) vs %s (restored %d, printed %d)", a.what, a.r, a.f, b.what, b.r, b.f))
		break
	}
	c.Count("printer_relocated_comments", int64(reloc))
	c.Count("pairs_compared", int64(len(pairs)))
	c.Count("comments_compared", int64(len(rcs)))
	return len(pairs)
}

func extrasTag(b bool) string {
	if b {
		return ":extras"
	}
	return ""
}

func stripWS(s string) string {
	return strings.Map(func(r rune) rune {
		if r == ' ' || r == '\t' || r == '\n' || r == '\r' {
			return -1
		}
		return r
	}, s)
}

func sameMultiset(a, b []*ast.Comment) bool {
	m := map[string]int{}
	for _, x := range a {
		m[stripWS(x.Text)]++
	}
	for _, x := range b {
		m[stripWS(x.Text)]--
	}
	for _, v := range m {
		if v != 0 {
			return false
		}
	}
	return true
}

// gofmtMovesCommentBehind answers, without dst: if the comment is spliced textually at the side of
// the token where the restored ast has it, does gofmt itself put it back on the side where the
// printed text has it? The comment is tagged with a unique marker, the text is run through
// format.Source, and the number of syntax tokens in front of the marker is compared with the
// printed text. If gofmt agrees with the printed text the inversion is go/printer's, not dst's.
func gofmtMovesCommentBehind(out []byte, fset *token.FileSet, f *ast.File, cm, tk posPair) bool {
	tf := fset.File(f.Pos())
	co, to := tf.Offset(cm.f), tf.Offset(tk.f)
	var text string
	for _, cg := range f.Comments {
		for _, c := range cg.List {
			if c.Slash == cm.f {
				text = c.Text
			}
		}
	}
	if text == "" || co < 0 || to < 0 || co+len(text) > len(out) {
		return false
	}
	toks, _ := obs.Scan(out)
	rankOf := func(ts []obs.Tok, off int) int {
		n := 0
		for _, t := range ts {
			if t.Off >= off {
				break
			}
			if t.Tok != token.COMMENT && t.Tok != token.SEMICOLON {
				n++
			}
		}
		return n
	}
	wantRank := rankOf(toks, co)
	// token extent
	tlen := 1
	for _, t := range toks {
		if t.Off == to {
			tlen = len(t.Lit)
			if t.Lit == "" {
				tlen = len(t.Tok.String())
			}
		}
	}
	const marker = "@@M@@"
	tagged := ""
	if strings.HasPrefix(text, "//") {
		tagged = text + marker + "\n"
	} else {
		tagged = text[:len(text)-2] + marker + "*/ "
	}
	without := func(b []byte) []byte { // out with the comment removed
		r := append([]byte(nil), b[:co]...)
		return append(r, b[co+len(text):]...)
	}
	adj := func(off int) int { // offset in "without" coordinates
		if off > co {
			return off - len(text)
		}
		return off
	}
	w := without(out)
	ins := adj(to)
	if cm.r > tk.r {
		ins = adj(to + tlen) // restored ast has the comment after the token
		tagged = " " + tagged
	}
	spliced := append(append(append([]byte(nil), w[:ins]...), tagged...), w[ins:]...)
	g, err := format.Source(spliced)
	if err != nil {
		return false
	}
	mi := bytes.Index(g, []byte(marker))
	if mi < 0 {
		return false
	}
	gt, _ := obs.Scan(g)
	return rankOf(gt, mi) == wantRank
}

func isSep(b byte) bool {
	return b == ' ' || b == '\t' || b == '\n' || b == '(' || b == ')' || b == ',' || b == ';' || b == '{' || b == '}' || b == '[' || b == ']' || b == '.'
}

// c12Unmodelled: positions for which dst keeps no information (an arrow-less chan type prints no
// arrow; the implicit semicolon of an empty statement; the range keyword; the file extent).
var c12Unmodelled = map[string]bool{"ChanType.Arrow": true, "EmptyStmt.Semicolon": true, "File.FileEnd": true, "File.FileStart": true, "RangeStmt.Range": true}

// c12Via, when set, replaces Restorer.RestoreFile in c12Check (a FileRestorer of the same Restorer
// that has state from earlier files).
var c12Via func(*dst.File) (*ast.File, error)

func runC12(c *fw.Ctx) {
	files := corpus.Sample(c.Rand("files"), c.Pick(160, 4000))
	var shared *token.FileSet
	sharedN := 0
	zoo := layoutZoo()
	for k := range zoo {
		files = append(files, "zoo:"+k)
	}
	sort.Strings(files)
	for i, p := range files {
		if !c.Mine(i) {
			continue
		}
		var src []byte
		if strings.HasPrefix(p, "zoo:") {
			src = []byte(zoo[strings.TrimPrefix(p, "zoo:")])
		} else {
			src = readFile(p)
		}
		if src == nil || len(src) > 150000 {
			continue
		}
		for _, cfg := range []string{"plain", "dense", "imports", "extras", "imports-pruned", "cloned", "odd-spacing"} {
			id := "file:" + corpus.Rel(p) + "/" + cfg
			c.Case(id, func() {
				c.Observe("configs", cfg)
				if shared == nil || sharedN >= 12 {
					shared = token.NewFileSet()
					sharedN = 0
				}
				// the caller interleaves its own files
				if sharedN%2 == 1 {
					shared.AddFile(fmt.Sprintf("caller%d.go", sharedN), -1, 100+sharedN*37)
				}
				sharedN++
				var df *dst.File
				var err error
				var r *decorator.Restorer
				switch cfg {
				case "imports", "imports-pruned":
					d := decorator.NewDecoratorWithImports(token.NewFileSet(), "example.com/self", goast.New())
					df, err = d.Parse(src)
					r = decorator.NewRestorerWithImports("example.com/self", guess.New())
					if err == nil && cfg == "imports-pruned" {
						// all references but those to one package become local names, so import
						// management has to prune the import declarations down to that package
						keep := ""
						dst.Inspect(df, func(n dst.Node) bool {
							if id, ok := n.(*dst.Ident); ok && id.Path != "" {
								if keep == "" {
									keep = id.Path
								}
								if id.Path != keep {
									id.Path = ""
								}
							}
							return true
						})
						if keep == "" {
							return
						}
					}
				default:
					df, err = decorator.Parse(src)
					r = decorator.NewRestorer()
				}
				if err != nil {
					c.Count("inconclusive_decorate_error", 1)
					return
				}
				if cfg == "odd-spacing" {
					// spacing values outside None / NewLine / EmptyLine on some nodes (a decrement too
					// many, an uninitialised conversion): whatever they are taken to mean, positions
					// stay ordered and inside the file
					rr := c.Rand(id)
					odd := []dst.SpaceType{-2, -1, 3, 9}
					dst.Inspect(df, func(n dst.Node) bool {
						if n == nil {
							return false
						}
						if _, isFile := n.(*dst.File); isFile {
							return true
						}
						switch rr.Intn(12) {
						case 0:
							n.Decorations().Before = odd[rr.Intn(len(odd))]
						case 1:
							n.Decorations().After = odd[rr.Intn(len(odd))]
						}
						return true
					})
				}
				if cfg == "cloned" {
					// the tree that is restored is a clone of the decorated one
					df = dst.Clone(df).(*dst.File)
				}
				r.Fset = shared
				r.Extras = cfg == "extras"
				if cfg == "dense" {
					k := 0
					rr := c.Rand(id)
					ls := listStatements(df)
					decorateAll(df, func(n dst.Node, point string) string {
						k++
						if ls[n] && point == "End" && rr.Intn(4) == 0 {
							return fmt.Sprintf("//L%d", k)
						}
						return fmt.Sprintf("/*%d*/", k)
					})
				}
				n := c12Check(c, id, cfg, r, df, string(src))
				if n >= 20 {
					c.Nontrivial(id)
				}
				c.Max("files_in_shared_fileset", int64(sharedN))
				if i < 2 {
					c.Sample(map[string]interface{}{"case": id, "positions_compared": n})
				}
			})
		}
	}
	// one import-managing FileRestorer for several files whose imports are given other names from
	// file to file (alias overrides changed between the files, aliases written in the sources): the
	// positions of every file are judged like those of a single restore
	if c.Shard == 0 {
		srcs := []string{
			"package p\n\nimport \"fmt\"\n\nfunc a() {\n\tfmt.Println(fmt.Sprint(1), 2) // one\n}\n",
			"package p\n\nimport (\n\t\"fmt\"\n\t\"os\"\n)\n\n// b prints.\nfunc b() {\n\tfmt.Fprintln(os.Stdout, fmt.Sprint(os.Args)) /* two */\n}\n",
			"package p\n\nimport out \"fmt\"\n\nvar x = out.Sprint(out.Sprint(3))\n",
		}
		aliasSeqs := [][]string{{"f", "format", "f"}, {"format", "f", ""}, {"", "fmtpkg", "f"}, {"a", "abcdefghijkl", "b"}}
		for ai, seq := range aliasSeqs {
			id := fmt.Sprintf("file-restorer-imports-aliases:%d", ai)
			c.Case(id, func() {
				c.Observe("configs", "file-restorer-reused-with-imports")
				r := decorator.NewRestorerWithImports("example.com/self", guess.New())
				r.Fset = token.NewFileSet()
				fr := r.FileRestorer()
				for k, src := range srcs {
					df, err := decorator.NewDecoratorWithImports(token.NewFileSet(), "example.com/self", goast.New()).Parse(src)
					if err != nil {
						return
					}
					delete(fr.Alias, "fmt")
					if seq[k] != "" {
						fr.Alias["fmt"] = seq[k]
					}
					c12Via = fr.RestoreFile
					n := c12Check(c, fmt.Sprintf("%s/file%d", id, k), "file-restorer-reused-with-imports", r, df, src)
					c12Via = nil
					if n > 0 {
						c.Nontrivial(id, fmt.Sprint(k))
					}
				}
			})
		}
	}
	// hand-made trees: declarations built from literals, with the Func flag of a declaration's
	// signature left at its zero value (the keyword of a FuncDecl is printed and positioned whatever
	// the flag says) and decorations at several points. Field lists say Opening / Closing: the
	// restorer positions a parenthesis only where the tree says there is one.
	if c.Shard == 0 {
		for variant := 0; variant < 16; variant++ {
			if variant&2 != 0 {
				continue
			}
			id := fmt.Sprintf("hand-made:%d", variant)
			c.Case(id, func() {
				c.Observe("configs", "hand-made")
				ft := &dst.FuncType{Func: variant&1 != 0, Params: &dst.FieldList{Opening: true, Closing: true}}
				fd := &dst.FuncDecl{Name: dst.NewIdent("added"), Type: ft, Body: &dst.BlockStmt{List: []dst.Stmt{&dst.ReturnStmt{}}}}
				if variant&4 != 0 {
					fd.Recv = &dst.FieldList{Opening: true, Closing: true, List: []*dst.Field{{Names: []*dst.Ident{dst.NewIdent("r")}, Type: dst.NewIdent("T")}}}
					fd.Recv.Decs.End.Append("/* note */")
				}
				if variant&8 != 0 {
					fd.Decs.Start.Append("// doc")
					fd.Decs.Name.Append("/* after name */")
					fd.Name.Decs.Start.Append("/* before name */")
				}
				f := &dst.File{Name: dst.NewIdent("p"), Decls: []dst.Decl{
					&dst.GenDecl{Tok: token.TYPE, Specs: []dst.Spec{&dst.TypeSpec{Name: dst.NewIdent("T"), Type: &dst.StructType{Fields: &dst.FieldList{Opening: true, Closing: true}}}}},
					fd,
					&dst.GenDecl{Tok: token.VAR, Specs: []dst.Spec{&dst.ValueSpec{Names: []*dst.Ident{dst.NewIdent("v")}, Values: []dst.Expr{&dst.FuncLit{Type: &dst.FuncType{Func: true, Params: &dst.FieldList{Opening: true, Closing: true}}, Body: &dst.BlockStmt{}}}}}},
				}}
				r := decorator.NewRestorer()
				r.Fset = token.NewFileSet()
				if n := c12Check(c, id, "hand-made", r, f, ""); n > 0 {
					c.Nontrivial(id)
				}
			})
		}
	}
	// the file set a Restorer ends up with: created lazily (Fset nil), set on the Restorer, or set
	// through a FileRestorer obtained from it (the field is the Restorer's own); files restored one
	// after the other through the Restorer and its FileRestorers all land, disjoint, in that one set
	for i := 0; i+1 < len(files); i += 2 {
		if !c.Mine(i / 2) {
			continue
		}
		pair := files[i : i+2]
		for _, mode := range []string{"lazy", "set-on-restorer", "set-through-file-restorer", "file-restorer-then-restorer"} {
			id := "fileset:" + corpus.Rel(pair[0]) + "/" + mode
			c.Case(id, func() {
				c.Observe("configs", "file-set-ownership")
				var dfs []*dst.File
				for _, p := range pair {
					var src []byte
					if strings.HasPrefix(p, "zoo:") {
						src = []byte(zoo[strings.TrimPrefix(p, "zoo:")])
					} else {
						src = readFile(p)
					}
					if src == nil || len(src) > 150000 {
						return
					}
					df, err := decorator.Parse(src)
					if err != nil {
						return
					}
					dfs = append(dfs, df)
				}
				r := decorator.NewRestorer()
				var want *token.FileSet
				var afs []*ast.File
				var err error
				restoreVia := func(k int, viaFileRestorer bool) bool {
					var af *ast.File
					if sig, detail := fw.Try(func() {
						if viaFileRestorer {
							af, err = r.FileRestorer().RestoreFile(dfs[k])
						} else {
							af, err = r.RestoreFile(dfs[k])
						}
					}); sig != "" {
						c.Violate("restore-panic", sig, id+"\n"+detail, "")
						return false
					}
					if err != nil {
						return false
					}
					afs = append(afs, af)
					return true
				}
				switch mode {
				case "lazy":
					r.Fset = nil
					if !restoreVia(0, false) || !restoreVia(1, true) {
						return
					}
				case "set-on-restorer":
					want = token.NewFileSet()
					want.AddFile("callers.go", -1, 500)
					r.Fset = want
					if !restoreVia(0, true) || !restoreVia(1, false) {
						return
					}
				case "set-through-file-restorer":
					want = token.NewFileSet()
					fr := r.FileRestorer()
					fr.Fset = want
					var af *ast.File
					if sig, detail := fw.Try(func() { af, err = fr.RestoreFile(dfs[0]) }); sig != "" {
						c.Violate("restore-panic", sig, id+"\n"+detail, "")
						return
					}
					if err != nil {
						return
					}
					afs = append(afs, af)
					if !restoreVia(1, false) {
						return
					}
				default:
					r.Fset = nil
					if !restoreVia(0, true) || !restoreVia(1, false) {
						return
					}
				}
				if r.Fset == nil {
					c.Violate("file-set-ownership", "file-set-ownership:restorer-has-no-file-set:"+mode, id+": after two restores Restorer.Fset is still nil: the positions of the restored files cannot be resolved through the Restorer", "")
					return
				}
				if want != nil && r.Fset != want {
					c.Violate("file-set-ownership", "file-set-ownership:replaced:"+mode, id+": the Restorer no longer holds the file set it was given", "")
					return
				}
				var tfs []*token.File
				for k, af := range afs {
					tf := r.Fset.File(af.Package)
					if tf == nil {
						c.Violate("file-set-ownership", "file-set-ownership:file-not-in-restorer-set:"+mode, fmt.Sprintf("%s: restored file #%d (package keyword at %d) is not registered in Restorer.Fset", id, k, af.Package), "")
						return
					}
					tfs = append(tfs, tf)
				}
				if tfs[0] == tfs[1] {
					c.Violate("file-set-ownership", "file-set-ownership:files-overlap:"+mode, fmt.Sprintf("%s: both restored files resolve to the same registered file [%d,+%d] of Restorer.Fset", id, tfs[0].Base(), tfs[0].Size()), "")
					return
				}
				lo0, hi0, lo1, hi1 := tfs[0].Base(), tfs[0].Base()+tfs[0].Size(), tfs[1].Base(), tfs[1].Base()+tfs[1].Size()
				if lo1 <= hi0 && lo0 <= hi1 {
					c.Violate("files-overlap", "files-overlap:"+mode, fmt.Sprintf("%s: [%d,%d] and [%d,%d] overlap", id, lo0, hi0, lo1, hi1), "")
					return
				}
				// every position of both files lies in its own registered file
				for k, af := range afs {
					bad := ""
					allPositions(reflect.ValueOf(af), map[uintptr]bool{}, false, func(p token.Pos, where string) {
						if p.IsValid() && bad == "" && r.Fset.File(p) != tfs[k] {
							bad = where
						}
					}, "")
					if bad != "" {
						c.Violate("pos-out-of-file", "pos-out-of-file:"+bad+":"+mode, fmt.Sprintf("%s: file #%d: %s does not lie in the file registered for it", id, k, bad), "")
						return
					}
				}
				c.Count("file_set_ownership_checked", 1)
				c.Nontrivial(id)
			})
		}
	}
	// one FileRestorer re-used for several files of one FileSet: what was established for an
	// earlier file (line table, printed form, reported positions) must survive the later restores
	for i := 0; i+2 < len(files); i += 3 {
		if !c.Mine(i / 3) {
			continue
		}
		trio := files[i : i+3]
		id := "reuse:" + corpus.Rel(trio[0])
		c.Case(id, func() {
			c.Observe("configs", "file-restorer-reused")
			fr := decorator.NewRestorer().FileRestorer()
			fr.Fset = token.NewFileSet()
			type kept struct {
				af    *ast.File
				tf    *token.File
				lines []int
				out   string
				posns []token.Position
			}
			var ks []kept
			snapshot := func(af *ast.File) (string, []token.Position) {
				var buf bytes.Buffer
				if err := format.Node(&buf, fr.Fset, af); err != nil {
					return "format error: " + err.Error(), nil
				}
				var ps []token.Position
				n := 0
				ast.Inspect(af, func(x ast.Node) bool {
					if x != nil {
						if n%7 == 0 {
							ps = append(ps, fr.Fset.Position(x.Pos()))
						}
						n++
					}
					return true
				})
				return buf.String(), ps
			}
			verify := func(stage string) {
				for k, e := range ks {
					l := e.tf.Lines()
					if !reflect.DeepEqual(l, e.lines) {
						c.Violate("line-table-changed", "line-table-changed:file-restorer-reused", fmt.Sprintf("%s: the line table of file #%d changed after %s (%d entries before, %d after)", id, k, stage, len(e.lines), len(l)), "")
						return
					}
					for j := 1; j < len(l); j++ {
						if l[j] <= l[j-1] || l[j] >= e.tf.Size() {
							c.Violate("line-table", "line-table:file-restorer-reused", fmt.Sprintf("%s: file #%d after %s: line table entry %d = %d (previous %d, file size %d)", id, k, stage, j, l[j], l[j-1], e.tf.Size()), "")
							return
						}
					}
					out, ps := snapshot(e.af)
					if out != e.out {
						c.Violate("reprint-differs", "reprint-differs:file-restorer-reused", fmt.Sprintf("%s: printing the restored file #%d again after %s gives different bytes: %s", id, k, stage, obs.DiffContext([]byte(out), []byte(e.out))), "")
						return
					}
					if !reflect.DeepEqual(ps, e.posns) {
						c.Violate("positions-changed", "positions-changed:file-restorer-reused", fmt.Sprintf("%s: reported positions of file #%d changed after %s", id, k, stage), "")
						return
					}
				}
			}
			for k, p := range trio {
				src := readFile(p)
				if strings.HasPrefix(p, "zoo:") {
					src = []byte(zoo[strings.TrimPrefix(p, "zoo:")])
				}
				if src == nil || len(src) > 150000 {
					return
				}
				df, err := decorator.Parse(src)
				if err != nil {
					return
				}
				fr.Name = fmt.Sprintf("f%d.go", k)
				var af *ast.File
				if sig, detail := fw.Try(func() { af, err = fr.RestoreFile(df) }); sig != "" {
					c.Violate("restore-panic", sig, id+" [file-restorer-reused]\n"+detail, string(src))
					return
				}
				if err != nil {
					return
				}
				tf := fr.Fset.File(af.Pos())
				if tf == nil {
					c.Violate("no-file", "no-file:file-restorer-reused", id+": restored file has no *token.File", string(src))
					return
				}
				verify(fmt.Sprintf("restoring file #%d", k))
				out, ps := snapshot(af)
				ks = append(ks, kept{af, tf, append([]int(nil), tf.Lines()...), out, ps})
			}
			c.Count("file_restorer_reuse_sequences", 1)
			c.Nontrivial(id)
		})
	}
	_ = refl.TypeName
}

// listStatements returns the statements that are direct elements of a block, case or comm clause
// body and are not themselves compound: a line comment or newline after them is harmless (the
// position already carries an automatic semicolon).
func listStatements(f dst.Node) map[dst.Node]bool {
	out := map[dst.Node]bool{}
	add := func(l []dst.Stmt) {
		for _, s := range l {
			switch s.(type) {
			case *dst.ExprStmt, *dst.AssignStmt, *dst.ReturnStmt, *dst.IncDecStmt, *dst.GoStmt, *dst.DeferStmt, *dst.SendStmt, *dst.BranchStmt, *dst.DeclStmt:
				out[s] = true
			}
		}
	}
	dst.Inspect(f, func(n dst.Node) bool {
		switch n := n.(type) {
		case *dst.BlockStmt:
			add(n.List)
		case *dst.CaseClause:
			add(n.Body)
		case *dst.CommClause:
			add(n.Body)
		}
		return true
	})
	return out
}

func lineCommentInSpan(f *ast.File, a, b token.Pos) bool {
	if a > b {
		a, b = b, a
	}
	for _, cg := range f.Comments {
		for _, c := range cg.List {
			if strings.HasPrefix(c.Text, "//") && c.Slash >= a-1 && c.Slash <= b+1 {
				return true
			}
		}
	}
	return false
}

func inImportDecl(f *ast.File, p token.Pos) bool {
	for _, d := range f.Decls {
		if gd, ok := d.(*ast.GenDecl); ok && gd.Tok == token.IMPORT && p >= gd.Pos() && p <= gd.End() {
			return true
		}
	}
	return false
}

func sameImportOrder(a, b *ast.File) bool {
	pa := func(f *ast.File) []string {
		var out []string
		for _, d := range f.Decls {
			if gd, ok := d.(*ast.GenDecl); ok && gd.Tok == token.IMPORT {
				for _, s := range gd.Specs {
					out = append(out, s.(*ast.ImportSpec).Path.Value)
				}
			}
		}
		return out
	}
	x, y := pa(a), pa(b)
	if len(x) != len(y) {
		return false
	}
	for i := range x {
		if x[i] != y[i] {
			return false
		}
	}
	return true
}

// a generic alias declaration: type A[P any] = ...
var genericAlias = genericAliasDecl
