package props

import (
	"bytes"
	"fmt"
	"go/ast"
	"go/format"
	"go/parser"
	"go/token"
	"math/rand"
	"reflect"
	"regexp"
	"sort"
	"strconv"
	"strings"

	"github.com/dave/dst"
	"github.com/dave/dst/decorator"
	"github.com/dave/dst/decorator/resolver"
	"github.com/dave/dst/decorator/resolver/goast"
	"github.com/dave/dst/decorator/resolver/guess"
	"github.com/dave/dst/decorator/resolver/simple"

	"verif/internal/fw"
	"verif/internal/obs"
)

func init() {
	fw.Register(&fw.Check{
		ID:    "C07",
		Level: "exploration",
		Rule: "cases: seeded configurations = (universe of 9 package paths incl. three packages named fmt, two named log, a dotted path, a path whose name differs from its last element, " +
			"cgo) x (existing import-block shape: none, single, parenthesised, two blocks, cgo block first, cgo inside a mixed block, commented specs, aliased / blank / dot specs) x " +
			"(references: 0-3 uniquely named references per path, some to paths not imported, some imported paths unreferenced, local and empty paths) x (FileRestorer.Alias overrides: " +
			"name, \".\", \"_\") x (resolver: simple exact map, guess.WithMap, guess). The tree is built by parsing the text and collapsing each qualified reference into a path-carrying " +
			"identifier. Oracle on the re-parsed output with an independent import table: every reference binds to exactly its path (selector through an import of that path, or bare " +
			"under a dot-import of that path; bare for local/empty paths); import set == referenced U blank U cgo, each once; ordinary import names pairwise distinct; alias precedence " +
			"override > source alias > resolved name whenever the preferred names do not collide; import section byte-identical when nothing has to change, surviving specs in input " +
			"order when only deletions happen; 5 repetitions give identical bytes. distinct_nontrivial = distinct (shape, override kinds, conflict size, resolver) configurations with at least one reference.",
		Floor: 1500,
		Run:   runC07,
		Assumptions: []string{
			"alias precedence is only asserted when no other required import prefers the same name (the statement: conflicts are renamed deterministically)",
			"overrides \"_\" are only generated for unreferenced paths and \"\" overrides are not generated (their meaning is not fixed by the statement)",
		},
		Required: map[string]int{"shapes": 8, "resolvers": 3},
	})
}

type c07Pkg struct{ path, name string }

var c07Universe = []c07Pkg{
	{"fmt", "fmt"}, {"os", "os"}, {"a/b/fmt", "fmt"}, {"x.com/y/fmt", "fmt"}, {"log", "log"}, {"x.com/z/log", "log"},
	{"gopkg.in/yaml.v2", "yaml"}, {"strings", "strings"}, {"A/pkg", "pkg"},
	// distinct paths that differ only in letter case (and share the package name)
	{"x.com/Y/fmt", "fmt"}, {"github.com/Sirupsen/logrus", "logrus"}, {"github.com/sirupsen/logrus", "logrus"},
	// a path and a sub-path of it, with one package name
	{"github.com/go-chi/chi", "chi"}, {"github.com/go-chi/chi/v5", "chi"},
	// a one-element path whose package is named differently (and like the yaml package above)
	{"yaml2", "yaml"},
}

type c07Spec struct {
	raw     bool // the path is written as a raw string literal
	path    string
	alias   string // "", name, "_", "."
	comment string
	lead    string
}

type c07Config struct {
	shape     string
	blocks    [][]c07Spec // specs per import declaration
	parens    []bool
	blockCmt  []string // per import declaration: a comment on the line of its opening parenthesis
	cgoFirst  bool
	refs      []c07Ref
	overrides map[string]string
	resolver  string
	local     string
}

type c07Ref struct {
	name string // unique
	path string // "" = plain local identifier
	via  string // qualifier written in the source text ("" for bare)
	pos  int    // index into c07Positions
}

// c07Positions: where a reference is written. %[1]s is the reference (Q.Rnnn), %[2]d a unique
// number. Entries starting with a tab are statements of the function body, the others are
// top-level declarations.
var c07Positions = []string{
	"\t%[1]s()",
	"type tg%[2]d[T %[1]s] struct{ v T }",
	"func fg%[2]d[T %[1]s](x T) {}",
	"type ts%[2]d struct{ f %[1]s }",
	"type te%[2]d struct{ %[1]s }",
	"var v%[2]d %[1]s",
	"\t_ = %[1]s{}",
	"func fp%[2]d(x *%[1]s, ys ...%[1]s) {}",
	"type ti%[2]d interface{ %[1]s }",
	"\tswitch v.(type) {\n\tcase %[1]s:\n\t}",
	"type ta%[2]d = %[1]s[int]",
	"func (r %[1]s) m%[2]d() {}",
	"\tvar _ = map[%[1]s]int{}",
	"\t_ = %[1]s.M",
	"type tc%[2]d interface{ ~int | %[1]s }",
	"\t_ = func() %[1]s { return nil }",
	"\t_ = v.(%[1]s)",
	"const k%[2]d = %[1]s + 1",
	"\t_ = map[int]string{%[1]s: \"k\"}",
	"\t_ = [...]string{%[1]s: \"i\"}",
	"\t_ = map[string]int{\"v\": %[1]s}",
	"\t_ = T{f: %[1]s}",
	"var vi%[2]d %[1]s[int, string]",
	"\t_ = %[1]s[int, string](1)",
	"type tl%[2]d struct{ f %[1]s[int, string] }",
	"var vs%[2]d = v[1:2:%[1]s]",
	"\tfor %[1]s = range v {\n\t}",
	"\tswitch v.(type) {\n\tcase int, interface{ M(%[1]s) }:\n\t}",
	"var vc%[2]d <-chan %[1]s",
}

func c07Names() map[string]string {
	m := map[string]string{}
	for _, p := range c07Universe {
		m[p.path] = p.name
	}
	return m
}

func c07Generate(r *rand.Rand) *c07Config {
	cfg := &c07Config{overrides: map[string]string{}, local: "example.com/self"}
	shapes := []string{"none", "single", "parens", "two-blocks", "cgo-first", "cgo-mixed", "commented", "aliased-blank-dot"}
	cfg.shape = shapes[r.Intn(len(shapes))]
	cfg.resolver = []string{"simple", "guess.WithMap", "guess"}[r.Intn(3)]
	perm := r.Perm(len(c07Universe))
	if cfg.resolver == "guess" {
		// the plain guessing resolver is only accurate for paths whose last element is the package
		// name: leave out the one path for which it is not
		var q []int
		for _, k := range perm {
			if c07Universe[k].path != "gopkg.in/yaml.v2" && c07Universe[k].path != "github.com/go-chi/chi/v5" && c07Universe[k].path != "yaml2" {
				q = append(q, k)
			}
		}
		perm = q
	}
	// the file's own package may itself live in a vendor directory, and then the un-vendored form of
	// its path is some other package (here: one that the file imports or refers to)
	switch r.Intn(8) {
	case 0:
		cfg.local = "example.com/self/vendor/" + c07Universe[perm[0]].path
	case 1:
		cfg.local = "vendor/" + c07Universe[perm[0]].path
	}
	nimp := 1 + r.Intn(5)
	var specs []c07Spec
	usedAlias := map[string]bool{}
	for k := 0; k < nimp && k < len(perm); k++ {
		p := c07Universe[perm[k]]
		sp := c07Spec{path: p.path, raw: r.Intn(10) == 0}
		if cfg.shape == "aliased-blank-dot" || r.Intn(5) == 0 {
			switch r.Intn(4) {
			case 0:
				sp.alias = "_"
			case 1:
				sp.alias = "."
			case 2:
				sp.alias = fmt.Sprintf("al%d", k)
			case 3:
				sp.alias = p.name // aliased with its own name
			}
		}
		if cfg.shape == "commented" || r.Intn(6) == 0 {
			if r.Intn(2) == 0 {
				sp.comment = fmt.Sprintf("// c%d", k)
			} else {
				sp.lead = fmt.Sprintf("// lead%d", k)
			}
		}
		// names bound in the source must be distinct for the source to be valid
		eff := sp.alias
		if eff == "" {
			eff = p.name
		}
		if eff != "_" && eff != "." {
			if usedAlias[eff] {
				sp.alias = fmt.Sprintf("u%d", k)
				eff = sp.alias
			}
			usedAlias[eff] = true
		}
		specs = append(specs, sp)
	}
	switch cfg.shape {
	case "none":
		specs = nil
	case "single":
		specs = specs[:1]
		cfg.blocks, cfg.parens = [][]c07Spec{specs}, []bool{false}
	case "two-blocks":
		h := (len(specs) + 1) / 2
		cfg.blocks, cfg.parens = [][]c07Spec{specs[:h], specs[h:]}, []bool{true, true}
		if len(specs[h:]) == 0 {
			cfg.blocks, cfg.parens = [][]c07Spec{specs}, []bool{true}
		}
	case "cgo-first":
		cfg.cgoFirst = true
		cfg.blocks, cfg.parens = [][]c07Spec{specs}, []bool{true}
	case "cgo-mixed":
		specs = append(specs, c07Spec{path: "C"})
		r.Shuffle(len(specs), func(i, j int) { specs[i], specs[j] = specs[j], specs[i] })
		cfg.blocks, cfg.parens = [][]c07Spec{specs}, []bool{true}
	default:
		if len(specs) > 0 {
			cfg.blocks, cfg.parens = [][]c07Spec{specs}, []bool{len(specs) > 1 || r.Intn(2) == 0}
		}
	}
	// a comment on the line of the opening parenthesis of some blocks
	cfg.blockCmt = make([]string, len(cfg.blocks))
	for bi := range cfg.blocks {
		if cfg.parens[bi] && (cfg.shape == "commented" || r.Intn(5) == 0) && !cfg.cgoFirst && cfg.shape != "cgo-mixed" {
			cfg.blockCmt[bi] = fmt.Sprintf("// blk%d", bi)
		}
	}
	// references
	n := 0
	imported := map[string]c07Spec{}
	for _, b := range cfg.blocks {
		for _, s := range b {
			imported[s.path] = s
		}
	}
	for _, k := range perm[:minInt(len(perm), nimp+2)] {
		p := c07Universe[k]
		sp, isImp := imported[p.path]
		nref := r.Intn(4)
		if isImp && sp.alias == "_" {
			nref = 0 // blank imports stay unreferenced (else the source alias question arises)
			if r.Intn(4) == 0 {
				nref = 1
			}
		}
		for j := 0; j < nref; j++ {
			n++
			cfg.refs = append(cfg.refs, c07Ref{name: fmt.Sprintf("R%03d", n), path: p.path})
		}
	}
	for j := 0; j < r.Intn(3); j++ {
		n++
		path := ""
		if r.Intn(2) == 0 {
			path = cfg.local
		}
		cfg.refs = append(cfg.refs, c07Ref{name: fmt.Sprintf("R%03d", n), path: path})
	}
	r.Shuffle(len(cfg.refs), func(i, j int) { cfg.refs[i], cfg.refs[j] = cfg.refs[j], cfg.refs[i] })
	// the syntactic position of each reference: half of them calls in a function body, the others
	// spread over the places where a qualified name can occur
	for i := range cfg.refs {
		if r.Intn(2) == 0 {
			cfg.refs[i].pos = 1 + r.Intn(len(c07Positions)-1)
		}
	}
	// overrides
	used := map[string]bool{}
	for _, rf := range cfg.refs {
		used[rf.path] = true
	}
	for _, k := range perm[:3] {
		p := c07Universe[k]
		switch r.Intn(8) {
		case 0:
			cfg.overrides[p.path] = fmt.Sprintf("ov%d", k)
		case 1:
			cfg.overrides[p.path] = "."
		case 2:
			if !used[p.path] {
				cfg.overrides[p.path] = "_"
			}
		case 3:
			cfg.overrides[p.path] = "fmt" // provoke a conflict
		}
	}
	return cfg
}

func (cfg *c07Config) source() string {
	var sb strings.Builder
	sb.WriteString("package p\n\n")
	if cfg.cgoFirst {
		sb.WriteString("/*\n#include <stdio.h>\n*/\nimport \"C\"\n\n")
	}
	for bi, b := range cfg.blocks {
		if len(b) == 0 {
			continue
		}
		line := func(s c07Spec) string {
			l := ""
			if s.alias != "" {
				l += s.alias + " "
			}
			if s.raw {
				l += "`" + s.path + "`"
			} else {
				l += strconv.Quote(s.path)
			}
			if s.comment != "" {
				l += " " + s.comment
			}
			return l
		}
		if cfg.parens[bi] {
			if bi < len(cfg.blockCmt) && cfg.blockCmt[bi] != "" {
				sb.WriteString("import ( " + cfg.blockCmt[bi] + "\n")
			} else {
				sb.WriteString("import (\n")
			}
			for _, s := range b {
				if s.lead != "" {
					sb.WriteString("\t" + s.lead + "\n")
				}
				sb.WriteString("\t" + line(s) + "\n")
			}
			sb.WriteString(")\n\n")
		} else {
			if b[0].lead != "" {
				sb.WriteString(b[0].lead + "\n")
			}
			sb.WriteString("import " + line(b[0]) + "\n\n")
		}
	}
	sb.WriteString("func f(v interface{}) {\n")
	for i, rf := range cfg.refs {
		// every reference is written with a placeholder qualifier; the tree is fixed up afterwards
		if t := c07Positions[rf.pos]; strings.HasPrefix(t, "\t") {
			sb.WriteString(fmt.Sprintf(t, "Q."+rf.name, i) + "\n")
		}
	}
	if cfg.cgoFirst || cfg.shape == "cgo-mixed" {
		sb.WriteString("\t_ = C.int(1)\n")
	}
	sb.WriteString("}\n")
	for i, rf := range cfg.refs {
		if t := c07Positions[rf.pos]; !strings.HasPrefix(t, "\t") {
			sb.WriteString("\n" + fmt.Sprintf(t, "Q."+rf.name, i) + "\n")
		}
	}
	return sb.String()
}

// build parses the source and collapses Q.Rnnn into path-carrying identifiers.
func (cfg *c07Config) build() (*dst.File, string, error) {
	src := cfg.source()
	if g, err := format.Source([]byte(src)); err == nil {
		src = string(g) // the input is gofmt-canonical: import blocks are already sorted
	}
	// gofmt rewrites raw-string import paths; they are put back afterwards (valid Go, and the
	// import section is otherwise in its canonical order and layout)
	for _, b := range cfg.blocks {
		for _, sp := range b {
			if sp.raw && sp.path != "C" {
				src = strings.Replace(src, strconv.Quote(sp.path), "`"+sp.path+"`", 1)
			}
		}
	}
	f, err := decorator.Parse(src)
	if err != nil {
		return nil, src, err
	}
	paths := map[string]string{}
	for _, rf := range cfg.refs {
		paths[rf.name] = rf.path
	}
	// every Q.Rnnn selector, wherever it stands, becomes a path-carrying identifier (the slots are
	// found by reflection so that this does not depend on the library's own traversal)
	var fix func(v reflect.Value)
	fix = func(v reflect.Value) {
		switch v.Kind() {
		case reflect.Ptr:
			if !v.IsNil() && v.Elem().Kind() == reflect.Struct {
				fix(v.Elem())
			}
		case reflect.Interface:
			if v.IsNil() {
				return
			}
			if se, ok := v.Interface().(*dst.SelectorExpr); ok && v.CanSet() {
				if x, ok := se.X.(*dst.Ident); ok && x.Name == "Q" {
					id := &dst.Ident{Name: se.Sel.Name, Path: paths[se.Sel.Name]}
					id.Decs = dst.IdentDecorations{NodeDecs: se.Decs.NodeDecs}
					v.Set(reflect.ValueOf(id))
					return
				}
			}
			fix(v.Elem())
		case reflect.Slice:
			for i := 0; i < v.Len(); i++ {
				fix(v.Index(i))
			}
		case reflect.Struct:
			for i := 0; i < v.NumField(); i++ {
				sf := v.Type().Field(i)
				if sf.Name == "Obj" || sf.Name == "Scope" || sf.Name == "Decs" || sf.Name == "Imports" || sf.Name == "Unresolved" {
					continue
				}
				fix(v.Field(i))
			}
		}
	}
	fix(reflect.ValueOf(f))
	return f, src, nil
}

func (cfg *c07Config) resolverFor() resolver.RestorerResolver {
	switch cfg.resolver {
	case "simple":
		return simple.New(c07Names())
	case "guess.WithMap":
		return guess.WithMap(map[string]string{"gopkg.in/yaml.v2": "yaml", "github.com/go-chi/chi/v5": "chi", "yaml2": "yaml"})
	}
	return guess.New()
}

// resolvedName is the name the configured resolver has to give: every configuration's resolver is
// accurate for the paths it is used with, so this is the package's real name (taken from the
// universe table, not from the resolver under test).
func (cfg *c07Config) resolvedName(path string) string {
	if n, ok := c07Names()[path]; ok {
		return n
	}
	n, _ := cfg.resolverFor().ResolvePackage(path)
	return n
}

// rawPathsQuoted rewrites raw-string import paths as interpreted strings, as go/printer does.
var rawPathRE = regexp.MustCompile("`([^`\n]*)`")

func rawPathsQuoted(section string) string {
	return rawPathRE.ReplaceAllStringFunc(section, func(m string) string { return strconv.Quote(m[1 : len(m)-1]) })
}

func importSection(src string) string {
	f, err := parser.ParseFile(token.NewFileSet(), "", src, parser.ParseComments|parser.ImportsOnly)
	if err != nil || len(f.Decls) == 0 {
		return ""
	}
	lines := strings.Split(src, "\n")
	fset := token.NewFileSet()
	f2, _ := parser.ParseFile(fset, "", src, parser.ParseComments)
	first, last := -1, -1
	for _, d := range f2.Decls {
		if gd, ok := d.(*ast.GenDecl); ok && gd.Tok == token.IMPORT {
			s := fset.Position(gd.Pos()).Line
			if gd.Doc != nil {
				s = fset.Position(gd.Doc.Pos()).Line
			}
			e := fset.Position(gd.End()).Line
			if first < 0 {
				first = s
			}
			last = e
		}
	}
	if first < 0 {
		return ""
	}
	return strings.Join(lines[first-1:last], "\n")
}

func runC07(c *fw.Ctx) {
	n := c.Pick(6000, 300000)
	for i := 0; i < n; i++ {
		if !c.Mine(i) {
			continue
		}
		id := fmt.Sprintf("config:%d", i)
		c.Case(id, func() { c07One(c, id) })
	}
}

func c07One(c *fw.Ctx, id string) {
	r := c.Rand(id)
	cfg := c07Generate(r)
	f, src, err := cfg.build()
	if err != nil {
		c.Count("inconclusive_source_does_not_parse", 1)
		return
	}
	c.Observe("shapes", cfg.shape)
	c.Observe("resolvers", cfg.resolver)
	restore := func(f *dst.File) (string, string) {
		rs := decorator.NewRestorerWithImports(cfg.local, cfg.resolverFor())
		fr := rs.FileRestorer()
		for k, v := range cfg.overrides {
			fr.Alias[k] = v
		}
		var buf bytes.Buffer
		var err error
		if sig, detail := fw.Try(func() { err = fr.Fprint(&buf, f) }); sig != "" {
			return "", sig + "\n" + detail
		}
		if err != nil {
			return "", "error: " + err.Error()
		}
		return buf.String(), ""
	}
	desc := fmt.Sprintf("%s shape=%s resolver=%s overrides=%v refs=%v", id, cfg.shape, cfg.resolver, cfg.overrides, cfg.refs)
	out, perr := restore(f)
	viol := func(rule, sig, detail string) {
		c.Violate(rule, sig, desc+"\n"+detail+"\n--- input\n"+src+"\n--- output\n"+out, src)
	}
	if perr != "" {
		preds := []string{}
		if strings.Contains(src, "\"C\"") {
			preds = append(preds, "cgo-import")
		}
		first := strings.SplitN(perr, "\n", 2)[0]
		first = regexp.MustCompile(`[0-9]+`).ReplaceAllString(first, "N")
		if len(first) > 60 {
			first = first[:60]
		}
		viol("restore-failed", "restore-failed:"+first+":"+strings.Join(preds, "+"), perr)
		return
	}
	// determinism
	for k := 0; k < 4; k++ {
		f2, _, _ := cfg.build()
		o2, _ := restore(f2)
		if o2 != out {
			viol("nondeterministic", "nondeterministic", "a repetition on an equal tree gave different bytes:\n"+o2)
			return
		}
	}
	// a second pass over the restorer's own output: the restored ast (not its text) is decorated
	// again with the syntax-only resolver and restored with the same settings; references and
	// imports are bound as before, so the text is the same
	func() {
		f2, _, _ := cfg.build()
		rs := decorator.NewRestorerWithImports(cfg.local, cfg.resolverFor())
		fr := rs.FileRestorer()
		for k, v := range cfg.overrides {
			fr.Alias[k] = v
		}
		var af2 *ast.File
		var err error
		if sig, _ := fw.Try(func() { af2, err = fr.RestoreFile(f2) }); sig != "" || err != nil || af2 == nil {
			return
		}
		var df2 *dst.File
		if sig, detail := fw.Try(func() {
			// (the decorator takes the un-vendored form of its own path for local; the restorer under
			// test compares the path as given: for a vendored own path the second decoration is told
			// a neutral path, so that it resolves exactly what the first restore wrote)
			dpath := cfg.local
			if strings.Contains(dpath, "vendor/") {
				dpath = "example.com/self"
			}
			df2, err = decorator.NewDecoratorWithImports(rs.Fset, dpath, goast.WithResolver(simple.New(c07Names()))).DecorateFile(af2)
		}); sig != "" {
			viol("second-pass-panic", "second-pass-panic:"+sig, detail)
			return
		}
		if err != nil || df2 == nil {
			c.Count("inconclusive_second_pass_refused", 1) // dot-imports
			return
		}
		o2, perr2 := restore(df2)
		if perr2 != "" {
			viol("second-pass-restore-failed", "second-pass-restore-failed", perr2)
			return
		}
		c.Count("second_passes", 1)
		// (blank lines inside the import block are laid out by go/format's import sorting from the
		// positions it is given and are not compared: the token sequence is)
		t1, _ := obs.Scan([]byte(c07SortedImports(out)))
		t2, _ := obs.Scan([]byte(c07SortedImports(o2)))
		if i := obs.FirstDiff(obs.Syntax(t2), obs.Syntax(t1)); i >= 0 {
			viol("second-pass-differs", "second-pass-differs", fmt.Sprintf("decorating the restored ast again and restoring it with the same settings gives other tokens (first difference at token %d):\n%s", i, o2))
		}
	}()
	fset := token.NewFileSet()
	af, err := parser.ParseFile(fset, "", out, parser.ParseComments)
	if err != nil {
		viol("output-does-not-parse", "output-does-not-parse", err.Error())
		return
	}
	// independent import table
	type imp struct{ path, name, alias string }
	var imports []imp
	table := map[string]string{} // bound name -> path
	dot := map[string]bool{}
	count := map[string]int{}
	for _, is := range af.Imports {
		p, _ := strconv.Unquote(is.Path.Value)
		count[p]++
		alias := ""
		if is.Name != nil {
			alias = is.Name.Name
		}
		name := alias
		if alias == "" {
			name = cfg.resolvedName(p)
			if p == "C" {
				name = "C"
			}
		}
		imports = append(imports, imp{p, name, alias})
		switch alias {
		case ".":
			dot[p] = true
		case "_":
		default:
			if prev, dup := table[name]; dup {
				viol("import-names-collide", "import-names-collide", fmt.Sprintf("imports %q and %q are both bound to the name %q", prev, p, name))
			}
			table[name] = p
		}
	}
	// expected import set
	usedPaths := map[string]bool{}
	for _, rf := range cfg.refs {
		if rf.path != "" && rf.path != cfg.local {
			usedPaths[rf.path] = true
		}
	}
	srcAlias := map[string]string{}
	inSource := map[string]bool{}
	var srcOrder []string
	if sf, err := parser.ParseFile(token.NewFileSet(), "", src, parser.ImportsOnly); err == nil {
		for _, is := range sf.Imports {
			p, _ := strconv.Unquote(is.Path.Value)
			inSource[p] = true
			if p == "C" && cfg.shape != "cgo-mixed" {
				continue
			}
			a := ""
			if is.Name != nil {
				a = is.Name.Name
			}
			if p != "C" {
				srcAlias[p] = a
			}
			srcOrder = append(srcOrder, p)
		}
	}
	want := map[string]bool{}
	for p := range usedPaths {
		want[p] = true
	}
	for p, a := range srcAlias {
		if a == "_" && !usedPaths[p] {
			if ov, has := cfg.overrides[p]; !has || ov == "_" {
				want[p] = true
			} else if ov == "." || ov != "" {
				// an override replaces the blank alias of an unreferenced import: the statement
				// does not say whether it stays; not asserted
				delete(want, p)
				count[p] = 0
			}
		}
	}
	for p, ov := range cfg.overrides {
		if ov == "_" && !usedPaths[p] {
			want[p] = true
		}
	}
	if inSource["C"] {
		want["C"] = true
	}
	for p := range want {
		if count[p] != 1 {
			viol("import-missing-or-duplicated", fmt.Sprintf("import-count:%d", count[p]), fmt.Sprintf("path %q is required but imported %d times", p, count[p]))
		}
	}
	for p, k := range count {
		if k > 0 && !want[p] {
			if a, has := srcAlias[p]; has && a == "_" {
				continue // see above: unreferenced blank import with a non-blank override
			}
			viol("superfluous-import", "superfluous-import", fmt.Sprintf("path %q is imported but neither referenced, blank nor cgo", p))
		}
	}
	// references
	found := map[string]string{} // ref name -> "sel:<qualifier>" or "bare"
	ast.Inspect(af, func(n ast.Node) bool {
		switch x := n.(type) {
		case *ast.SelectorExpr:
			if q, ok := x.X.(*ast.Ident); ok && strings.HasPrefix(x.Sel.Name, "R") {
				found[x.Sel.Name] = "sel:" + q.Name
				return false
			}
		case *ast.Ident:
			if strings.HasPrefix(x.Name, "R") && len(x.Name) == 4 {
				if _, seen := found[x.Name]; !seen {
					found[x.Name] = "bare"
				}
			}
		}
		return true
	})
	for _, rf := range cfg.refs {
		got := found[rf.name]
		c.Count("references_checked", 1)
		switch {
		case rf.path == "" || rf.path == cfg.local:
			if got != "bare" {
				viol("local-reference-qualified", "local-reference-qualified", fmt.Sprintf("%s has local/empty path but is printed as %s", rf.name, got))
			}
		case dot[rf.path]:
			if got != "bare" {
				viol("dot-reference-qualified", "dot-reference-qualified", fmt.Sprintf("%s (path %s, dot-imported) is printed as %s", rf.name, rf.path, got))
			}
		default:
			if !strings.HasPrefix(got, "sel:") {
				viol("remote-reference-bare", "remote-reference-bare", fmt.Sprintf("%s (path %s) is printed bare although %s is not dot-imported", rf.name, rf.path, rf.path))
			} else if table[strings.TrimPrefix(got, "sel:")] != rf.path {
				viol("reference-bound-to-wrong-package", "reference-bound-to-wrong-package", fmt.Sprintf("%s (path %s) is qualified with %q which is bound to %q", rf.name, rf.path, strings.TrimPrefix(got, "sel:"), table[strings.TrimPrefix(got, "sel:")]))
			}
		}
	}
	// alias precedence
	preferred := map[string]string{}
	for p := range want {
		if p == "C" {
			continue
		}
		pref := ""
		if ov, ok := cfg.overrides[p]; ok && ov != "" && !(ov == "_" && usedPaths[p]) {
			pref = ov
		} else if a, ok := srcAlias[p]; ok && a != "" && !(a == "_" && usedPaths[p]) {
			pref = a
		} else {
			pref = cfg.resolvedName(p)
		}
		preferred[p] = pref
	}
	prefCount := map[string]int{}
	for _, v := range preferred {
		prefCount[v]++
	}
	conflict := 0
	for _, im := range imports {
		pref, ok := preferred[im.path]
		if !ok {
			continue
		}
		if pref == "." || pref == "_" {
			if im.alias != pref {
				viol("alias-precedence", "alias-precedence:"+pref, fmt.Sprintf("import %q should be %q-imported but is %q", im.path, pref, im.alias))
			}
			continue
		}
		if prefCount[pref] > 1 {
			conflict++
			continue
		}
		if im.name != pref {
			viol("alias-precedence", "alias-precedence:name", fmt.Sprintf("import %q should be bound to %q (override > source alias > resolved name) but is bound to %q", im.path, pref, im.name))
		}
	}
	// untouched import section
	additions := false
	for p := range want {
		if !inSource[p] {
			additions = true
		}
	}
	if !additions {
		var outOrder []string
		for _, d := range af.Decls {
			if gd, ok := d.(*ast.GenDecl); ok && gd.Tok == token.IMPORT {
				for _, s := range gd.Specs {
					p, _ := strconv.Unquote(s.(*ast.ImportSpec).Path.Value)
					if p != "C" || cfg.shape == "cgo-mixed" {
						outOrder = append(outOrder, p)
					}
				}
			}
		}
		var wantOrder []string
		for _, p := range srcOrder {
			if count[p] > 0 {
				wantOrder = append(wantOrder, p)
			}
		}
		// format.Node sorts every run of import specs on consecutive lines (ast.SortImports); a
		// comment line inside a block separates two runs in the input, and deleting a spec can
		// merge them, after which go/format sorts across the old boundary. That is gofmt's doing:
		// the order is only asserted for blocks that are a single sorted run.
		singleRun := !strings.Contains(importSection(src), "// lead")
		if !singleRun {
			c.Count("order_not_asserted_multi_run_block", 1)
		}
		if singleRun && strings.Join(outOrder, ",") != strings.Join(wantOrder, ",") {
			viol("imports-reordered", "imports-reordered", fmt.Sprintf("no import had to be added, yet the order changed: input %v, output %v", wantOrder, outOrder))
		}
		c.Count("no_addition_configs", 1)
		// decorations: the comment on the opening line of every block that keeps at least one spec is
		// still there, once (comments between specs belong to whichever neighbour dst attached them
		// to and may leave with it)
		outSection := importSection(out)
		for bi, b := range cfg.blocks {
			kept := 0
			for _, sp := range b {
				if !want[sp.path] || sp.path == "C" {
					continue
				}
				kept++
			}
			if kept > 0 && bi < len(cfg.blockCmt) && cfg.blockCmt[bi] != "" {
				c.Count("block_comments_checked", 1)
				if strings.Count(out, cfg.blockCmt[bi]) != 1 {
					viol("import-decorations-lost", fmt.Sprintf("import-decorations-lost:block:kept=%d", minInt(kept, 2)), fmt.Sprintf("no import had to be added and block %d keeps %d spec(s), yet its comment %q occurs %d times in the output", bi, kept, cfg.blockCmt[bi], strings.Count(out, cfg.blockCmt[bi])))
				}
			}
		}
		_ = outSection
		// nothing at all to change: the section must be byte-identical
		same := len(cfg.overrides) == 0
		for _, p := range srcOrder {
			if !want[p] {
				same = false
			}
			if prefCount[preferred[p]] > 1 {
				same = false
			}
			if srcAlias[p] == "_" && usedPaths[p] {
				same = false // a blank import that is referenced has to be given a name
			}
		}
		if same && importSection(out) != rawPathsQuoted(importSection(src)) {
			viol("import-section-changed", "import-section-changed", "nothing had to change in the imports, yet the import section differs")
		}
		if same {
			c.Count("identical_section_configs", 1)
		}
	}
	if len(cfg.refs) > 0 {
		var ovk []string
		for _, v := range cfg.overrides {
			switch v {
			case ".", "_":
				ovk = append(ovk, v)
			default:
				ovk = append(ovk, "name")
			}
		}
		sort.Strings(ovk)
		c.Nontrivial(cfg.shape, strings.Join(ovk, ""), fmt.Sprint(conflict), cfg.resolver, fmt.Sprint(additions), fmt.Sprint(len(want)))
	}
	c.Count("configs", 1)
	if conflict > 0 {
		c.Count("configs_with_name_conflicts", 1)
	}
	if strings.HasSuffix(id, "7") && len(cfg.refs) > 2 {
		c.Sample(map[string]interface{}{"case": id, "shape": cfg.shape, "resolver": cfg.resolver, "overrides": cfg.overrides, "input": src, "output": out})
	}
}

// c07SortedImports rewrites the text with the lines of its import section sorted and its blank and
// comment lines dropped (go/format orders the specs of a block by runs that blank lines delimit;
// which run a spec ends up in is layout, not binding).
func c07SortedImports(src string) string {
	sec := importSection(src)
	if sec == "" {
		return src
	}
	var lines []string
	for _, l := range strings.Split(sec, "\n") {
		t := strings.TrimSpace(l)
		if t == "" || strings.HasPrefix(t, "//") {
			continue
		}
		if i := strings.Index(t, " //"); i >= 0 {
			t = strings.TrimSpace(t[:i])
		}
		lines = append(lines, t)
	}
	sort.Strings(lines)
	return strings.Replace(src, sec, strings.Join(lines, "\n")+"\n", 1)
}
