package props

import (
	"bytes"
	"encoding/json"
	"errors"
	"fmt"
	"go/ast"
	"go/importer"
	"go/parser"
	"go/token"
	"go/types"
	"os"
	"os/exec"
	"path/filepath"
	"regexp"
	"sort"
	"strings"
	"syscall"

	"github.com/dave/dst"
	"github.com/dave/dst/decorator"
	"github.com/dave/dst/decorator/resolver"
	"github.com/dave/dst/decorator/resolver/goast"
	"github.com/dave/dst/decorator/resolver/simple"
	"golang.org/x/tools/go/packages"

	"verif/internal/corpus"
	"verif/internal/fw"
	"verif/internal/gen"
)

func init() {
	fw.Register(&fw.Check{
		ID:    "C20",
		Level: "fault_enumeration",
		Rule: "cases: hand-built decorator.Package values (packages.Package{PkgPath} literal, no go/packages call) over 1-10 canonical corpus files laid out in 1-3 directories of a scratch " +
			"tree (plus bystander files that must not be touched), decorated through Decorator.ParseFile or ParseDir, unedited or edited (imports added / removed / renamed), saved with " +
			"SaveWithResolver. Faults: the package-name resolver fails on the first use of a chosen path, for every file index at which that first use can be placed. The save runs in a " +
			"child process under strace (-f, file-modifying calls); the offline checker extracts every path opened for writing, created, renamed, unlinked or truncated between two marker " +
			"syscalls issued right before and after Save. Monitors: written paths == recorded source paths of the files up to the failing one, each once, in Syntax order; directory " +
			"snapshot (paths, bytes, modes) before/after: unedited canonical files byte-identical, edited files equal to the independently computed import-managed print, bystanders and " +
			"files after the failing one untouched; resolver failure returned as an error wrapping the injected one. distinct_nontrivial = distinct (layout, edit state, fault index) packages with >= 2 files.",
		Floor: 30,
		Run:   runC20,
		Assumptions: []string{
			"strace sees every system call of the child and its threads (-f); only calls between the two marker syscalls are attributed to Save",
			"package names for the exact resolver are read from the package clauses under GOROOT/src, independently of dst",
		},
		Required: map[string]int{"scenarios": 5},
	})
}

// C20Spec is handed to the child process.
type C20Spec struct {
	PkgPath  string            `json:"pkg_path"`
	Files    []string          `json:"files"` // absolute paths, in Syntax order
	Mode     string            `json:"mode"`  // parsefile | parsedir
	Dir      string            `json:"dir"`   // for parsedir
	Edit     []bool            `json:"edit"`  // per file
	Names    map[string]string `json:"names"`
	FailPath string            `json:"fail_path"`
}

// C20Result is printed by the child.
type C20Result struct {
	Err        string   `json:"err"`
	IsInjected bool     `json:"is_injected"`
	Order      []string `json:"order"` // file names in Syntax order as the package saw them
	Panic      string   `json:"panic"`
}

type c20Resolver struct {
	names    map[string]string
	failPath string
}

func (r c20Resolver) ResolvePackage(path string) (string, error) {
	if path == r.failPath {
		return "", fmt.Errorf("resolving %s: %w", path, errInjected)
	}
	return simple.New(r.names).ResolvePackage(path)
}

var _ resolver.RestorerResolver = c20Resolver{}

const c20MarkBegin = "/verif-c20-marker-begin"
const c20MarkEnd = "/verif-c20-marker-end"

// c20Build decorates the files of a spec into a decorator.Package (used by the child and, for the
// expected bytes, by the parent on a second copy of the sources).
func c20Build(spec *C20Spec, read func(string) []byte) (*decorator.Package, error) {
	fset := token.NewFileSet()
	d := decorator.NewDecoratorWithImports(fset, spec.PkgPath, goast.WithResolver(simple.New(spec.Names)))
	pkg := &decorator.Package{Package: &packages.Package{PkgPath: spec.PkgPath}, Decorator: d, Dir: filepath.Dir(spec.Files[0])}
	if spec.Mode == "typed" {
		// as Load does: parse, type-check, NewDecoratorFromPackage, DecorateFile per file
		var afs []*ast.File
		for _, fn := range spec.Files {
			af, err := parser.ParseFile(fset, fn, read(fn), parser.ParseComments)
			if err != nil {
				return nil, err
			}
			afs = append(afs, af)
		}
		info := &types.Info{Types: map[ast.Expr]types.TypeAndValue{}, Defs: map[*ast.Ident]types.Object{}, Uses: map[*ast.Ident]types.Object{}, Selections: map[*ast.SelectorExpr]*types.Selection{}, Implicits: map[ast.Node]types.Object{}, Scopes: map[ast.Node]*types.Scope{}}
		conf := types.Config{Importer: importer.ForCompiler(fset, "source", nil), Error: func(error) {}}
		tp, err := conf.Check(spec.PkgPath, fset, afs, info)
		if err != nil {
			return nil, err
		}
		lp := &packages.Package{ID: spec.PkgPath, Name: tp.Name(), PkgPath: spec.PkgPath, Fset: fset, Types: tp, TypesInfo: info}
		dt := decorator.NewDecoratorFromPackage(lp)
		tpkg := &decorator.Package{Package: lp, Decorator: dt, Dir: filepath.Dir(spec.Files[0])}
		for _, af := range afs {
			f, err := dt.DecorateFile(af)
			if err != nil {
				return nil, err
			}
			tpkg.Syntax = append(tpkg.Syntax, f)
		}
		return tpkg, nil
	}
	if spec.Mode == "parsedir" {
		// Decorator.ParseDir decorates the whole directory as one *ast.Package without a current
		// file, so import resolution is not available there; directories are decorated without it
		d2 := decorator.NewDecorator(fset)
		pkg.Decorator = d2
		pkgs, err := d2.ParseDir(spec.Dir, nil, parser.ParseComments)
		if err != nil {
			return nil, err
		}
		byName := map[string]*dst.File{}
		for _, p := range pkgs {
			for name, f := range p.Files {
				byName[name] = f
			}
		}
		for _, fn := range spec.Files {
			f := byName[fn]
			if f == nil {
				return nil, fmt.Errorf("ParseDir did not return %s", fn)
			}
			pkg.Syntax = append(pkg.Syntax, f)
		}
		return pkg, nil
	}
	for i, fn := range spec.Files {
		f, err := d.ParseFile(fn, read(fn), parser.ParseComments)
		if err != nil {
			return nil, err
		}
		if spec.Edit[i] {
			c17Edit(f)
		}
		pkg.Syntax = append(pkg.Syntax, f)
	}
	return pkg, nil
}

// C20Child is the child process: build, marker, save, marker, report.
func C20Child(specPath string) int {
	b, err := os.ReadFile(specPath)
	if err != nil {
		return 3
	}
	var spec C20Spec
	if json.Unmarshal(b, &spec) != nil {
		return 3
	}
	res := C20Result{}
	pkg, err := c20Build(&spec, readFile)
	if err != nil {
		res.Err = "build: " + err.Error()
		json.NewEncoder(os.Stdout).Encode(res)
		return 0
	}
	for _, f := range pkg.Syntax {
		res.Order = append(res.Order, pkg.Decorator.Filenames[f])
	}
	func() {
		defer func() {
			if r := recover(); r != nil {
				res.Panic = fmt.Sprint(r)
			}
		}()
		syscall.Access(c20MarkBegin, 0)
		var serr error
		if spec.Mode == "parsedir" {
			// files decorated without import management are saved with a plain restorer-compatible
			// resolver: no identifier carries a path, so the resolver is never consulted
			serr = pkg.SaveWithResolver(c20Resolver{names: spec.Names, failPath: spec.FailPath})
		} else {
			serr = pkg.SaveWithResolver(c20Resolver{names: spec.Names, failPath: spec.FailPath})
		}
		syscall.Access(c20MarkEnd, 0)
		if serr != nil {
			res.Err = serr.Error()
			res.IsInjected = errors.Is(serr, errInjected)
		}
	}()
	json.NewEncoder(os.Stdout).Encode(res)
	return 0
}

type snapEntry struct {
	data []byte
	mode os.FileMode
}

func snapshotTree(root string) map[string]snapEntry {
	m := map[string]snapEntry{}
	filepath.Walk(root, func(p string, info os.FileInfo, err error) error {
		if err != nil || info.IsDir() {
			if err == nil {
				m[p+"/"] = snapEntry{mode: info.Mode()}
			}
			return nil
		}
		b, _ := os.ReadFile(p)
		m[p] = snapEntry{b, info.Mode()}
		return nil
	})
	return m
}

var (
	straceOpen   = regexp.MustCompile(`^\d+\s+(openat|open|creat)\((?:AT_FDCWD, |-?\d+, )?"([^"]*)"(?:, ([A-Z_|0-9]+))?`)
	straceModify = regexp.MustCompile(`^\d+\s+(rename|renameat|renameat2|unlink|unlinkat|mkdir|mkdirat|link|linkat|symlink|symlinkat|truncate|chmod|fchmodat|rmdir)\((.*)`)
	straceQuoted = regexp.MustCompile(`"([^"]*)"`)
)

// parseStrace returns, in order, the paths modified between the two markers.
func parseStrace(log string) (writes []string, sawMarkers bool) {
	in := false
	begin, end := false, false
	for _, line := range strings.Split(log, "\n") {
		if strings.Contains(line, c20MarkBegin) {
			in, begin = true, true
			continue
		}
		if strings.Contains(line, c20MarkEnd) {
			in, end = false, true
			continue
		}
		if !in {
			continue
		}
		if m := straceOpen.FindStringSubmatch(line); m != nil {
			flags := m[3]
			if m[1] == "creat" || strings.Contains(flags, "O_WRONLY") || strings.Contains(flags, "O_RDWR") || strings.Contains(flags, "O_CREAT") || strings.Contains(flags, "O_TRUNC") || strings.Contains(flags, "O_APPEND") {
				writes = append(writes, m[2])
			}
			continue
		}
		if m := straceModify.FindStringSubmatch(line); m != nil {
			for _, q := range straceQuoted.FindAllStringSubmatch(m[2], -1) {
				writes = append(writes, m[1]+":"+q[1])
			}
		}
	}
	return writes, begin && end
}

func runC20(c *fw.Ctx) {
	if _, err := exec.LookPath("strace"); err != nil {
		c.Count("strace_missing", 1)
		return
	}
	exe, _ := os.Executable()
	// pool of canonical files with imports whose package names are known
	var pool []string
	for _, p := range corpus.Sample(c.Rand("pool"), 3000) {
		if len(pool) >= 400 {
			break
		}
		src := readFile(p)
		if src == nil || len(src) > 40000 || len(src) < 300 || !bytes.Contains(src, []byte("\nimport")) || bytes.Contains(src, []byte("import \"C\"")) {
			continue
		}
		if strings.Contains(p, "testdata") || !corpus.Canonical(src) || dupImport(src) {
			continue
		}
		if _, ok := corpus.ImportNames(src); !ok {
			continue
		}
		pool = append(pool, p)
	}
	// files without imports for the ParseDir scenario (Decorator.ParseDir has no per-file import
	// resolution, so only files for which import management is a no-op are saved through it)
	for _, p := range corpus.Sample(c.Rand("pool2"), 3000) {
		if len(c20NoImport) >= 150 {
			break
		}
		src := readFile(p)
		if src == nil || len(src) > 40000 || len(src) < 200 || bytes.Contains(src, []byte("import")) || strings.Contains(p, "testdata") || !corpus.Canonical(src) {
			continue
		}
		c20NoImport = append(c20NoImport, p)
	}
	n := c.Pick(48, 1500)
	for i := 0; i < n; i++ {
		if !c.Mine(i) {
			continue
		}
		id := fmt.Sprintf("pkg:%d", i)
		c.Case(id, func() { c20One(c, id, i, pool, exe) })
	}
}

func c20One(c *fw.Ctx, id string, i int, pool []string, exe string) {
	r := c.Rand(id)
	root := filepath.Join(c.WorkDir, fmt.Sprintf("c20-%d", i))
	os.MkdirAll(root, 0755)
	defer os.RemoveAll(root)
	scenario := []string{"unedited", "edited", "fault", "parsedir-unedited", "typed-unedited"}[i%5]
	if scenario == "typed-unedited" {
		c20Typed(c, id, i, root, exe)
		return
	}
	c.Observe("scenarios", scenario)
	nfiles := 1 + r.Intn(10)
	ndirs := 1 + r.Intn(3)
	if scenario == "parsedir-unedited" {
		ndirs = 1
	}
	spec := &C20Spec{PkgPath: "example.com/self", Mode: "parsefile", Names: map[string]string{}}
	orig := map[string][]byte{}
	for k := 0; k < nfiles; k++ {
		p := pool[r.Intn(len(pool))]
		if scenario == "parsedir-unedited" {
			p = c20NoImport[r.Intn(len(c20NoImport))]
		}
		src := readFile(p)
		dir := filepath.Join(root, fmt.Sprintf("d%d", k%ndirs))
		os.MkdirAll(dir, 0755)
		fn := filepath.Join(dir, fmt.Sprintf("f%02d_%s", k, filepath.Base(p)))
		if scenario == "parsedir-unedited" {
			// one directory = one package name for ParseDir to return everything under known names
			fn = filepath.Join(dir, fmt.Sprintf("f%02d.go", k))
		}
		os.WriteFile(fn, src, 0644)
		orig[fn] = src
		spec.Files = append(spec.Files, fn)
		names, _ := corpus.ImportNames(src)
		for a, b := range names {
			spec.Names[a] = b
		}
		spec.Edit = append(spec.Edit, scenario == "edited" && r.Intn(3) > 0 || scenario == "fault")
	}
	// a generated-code style file: a //line directive naming another file precedes the package
	// clause (goyacc, cgo). The file must still be saved to the path it was loaded from, and the
	// file the directive names is a bystander.
	if scenario != "parsedir-unedited" && i%3 == 0 {
		dir := filepath.Dir(spec.Files[0])
		fn := filepath.Join(dir, "zz_generated.go")
		src := []byte("//line expr.y:2\npackage " + "gen" + "\n\nimport \"fmt\"\n\n//line expr.y:10\nvar _ = fmt.Sprint\n")
		os.WriteFile(fn, src, 0644)
		os.WriteFile(filepath.Join(dir, "expr.y"), []byte("%{ grammar source: do not touch %}\n"), 0644)
		orig[fn] = src
		spec.Files = append(spec.Files, fn)
		spec.Edit = append(spec.Edit, false)
		spec.Names["fmt"] = "fmt"
		c.Count("packages_with_line_directive_file", 1)
	}
	// a file whose imports are referenced only in type positions (constraint of a generic type,
	// embedded field, field type, blank variable type): unedited, so it must stay byte-identical
	if scenario != "parsedir-unedited" && i%3 == 1 {
		dir := filepath.Dir(spec.Files[0])
		fn := filepath.Join(dir, "zz_typeonly.go")
		src := []byte("package gen\n\nimport (\n\t\"cmp\"\n\t\"io\"\n\t\"os\"\n\t\"sort\"\n\t\"strings\"\n)\n\ntype Sorted[T cmp.Ordered] []T\n\ntype W struct {\n\tio.Writer\n\tb *strings.Builder\n}\n\nvar _ sort.Interface\n\n// qualified identifiers that end an expression and carry comments of their own\nvar zzList = []interface{}{\n\tos.DevNull, // nothing to read\n\tos.Args,    /* block */\n\t// own line\n\tos.Stdin,\n}\n\nfunc zzCall() {\n\tprintln(os.DevNull, // trailing\n\t\tos. // after the dot\n\t\t\tArgs)\n}\n\nfunc zzCall2() {\n\tprintln(\n\t\tos.Stdout,\n\t\t// os.Stderr,\n\t)\n\t_ = []*os.File{\n\t\tos.Stdin,\n\t\t// os.Stdout,\n\t}\n}\n")
		os.WriteFile(fn, src, 0644)
		orig[fn] = src
		spec.Files = append(spec.Files, fn)
		spec.Edit = append(spec.Edit, false)
		for _, n := range []string{"cmp", "io", "os", "sort", "strings"} {
			spec.Names[n] = n
		}
		c.Count("packages_with_type_only_imports_file", 1)
	}
	// a file without a parenthesised import declaration (go/format then prints the restored ast
	// directly, without its sort-imports re-parse) whose aligned blocks carry trailing block comments
	if scenario != "parsedir-unedited" && i%3 == 2 {
		dir := filepath.Dir(spec.Files[0])
		fn := filepath.Join(dir, "zz_blockcomments.go")
		raw := "package gen\n\nimport \"fmt\"\n\nconst (\n\tDebug = iota /* verbose */\n\tInfo /* default */\n\tWarning\n\tError /* last */\n)\n\ntype S struct {\n\tA int `json:\"a\"` /* first */\n\tBcd string /* second */\n\tfmt.Stringer /* embedded */\n\tlast bool\n}\n\nvar (\n\tx, y = 1, 2 /* pair */\n\tlonger int /* typed */\n)\n\nvar _ = fmt.Sprint\n"
		if src, ok := gen.Canonicalise([]byte(raw)); ok {
			os.WriteFile(fn, src, 0644)
			orig[fn] = src
			spec.Files = append(spec.Files, fn)
			spec.Edit = append(spec.Edit, false)
			spec.Names["fmt"] = "fmt"
			c.Count("packages_with_block_comment_file", 1)
		}
	}
	if scenario == "parsedir-unedited" {
		spec.Mode = "parsedir"
		spec.Dir = filepath.Dir(spec.Files[0])
		sort.Strings(spec.Files)
	}
	// names for the packages c17Edit introduces
	spec.Names["example.com/added/alpha"] = "alpha"
	spec.Names["example.org/other/fmt"] = "fmt"
	spec.Names["added/beta"] = "beta"
	// bystanders
	by := filepath.Join(root, "d0", "bystander.txt")
	os.WriteFile(by, []byte("do not touch"), 0600)
	os.WriteFile(filepath.Join(root, "bystander.go"), []byte("package bystander\n"), 0644)

	// expected bytes, computed independently on the same sources (before the child runs)
	expected := map[string][]byte{}
	firstUse := map[string]int{} // path -> first file index that makes the resolver resolve it
	epkg, err := c20Build(spec, func(p string) []byte { return orig[p] })
	if err != nil {
		c.Count("inconclusive_build_failed", 1)
		return
	}
	for k, f := range epkg.Syntax {
		rec := &recordingResolver{inner: simple.New(spec.Names)}
		rs := decorator.NewRestorerWithImports(spec.PkgPath, rec)
		var buf bytes.Buffer
		if err := rs.Fprint(&buf, f); err != nil {
			c.Count("inconclusive_expected_print_failed", 1)
			return
		}
		expected[spec.Files[k]] = buf.Bytes()
		for _, p := range rec.paths {
			if _, ok := firstUse[p]; !ok {
				firstUse[p] = k
			}
		}
	}
	failIdx := -1
	if scenario == "fault" {
		// choose a path and therefore the file index of its first use
		var cands []string
		for p := range firstUse {
			cands = append(cands, p)
		}
		sort.Strings(cands)
		if len(cands) == 0 {
			c.Count("inconclusive_no_resolver_call", 1)
			return
		}
		spec.FailPath = cands[r.Intn(len(cands))]
		failIdx = firstUse[spec.FailPath]
		c.Observe("fault_file_index", fmt.Sprint(failIdx))
	}

	specPath := filepath.Join(root, "spec.json")
	sb, _ := json.Marshal(spec)
	os.WriteFile(specPath, sb, 0644)
	before := snapshotTree(root)
	logPath := filepath.Join(c.WorkDir, fmt.Sprintf("strace-%d.log", i))
	defer os.Remove(logPath)
	cmd := exec.Command("strace", "-f", "-o", logPath, "-e", "trace=open,openat,creat,rename,renameat,renameat2,unlink,unlinkat,mkdir,mkdirat,link,linkat,symlink,symlinkat,truncate,chmod,fchmodat,rmdir,access,faccessat,faccessat2", exe, "c20child", specPath)
	var stdout, stderr bytes.Buffer
	cmd.Stdout, cmd.Stderr = &stdout, &stderr
	if err := cmd.Run(); err != nil {
		c.Violate("child-died", "child-died", id+": "+err.Error()+"\n"+stderr.String(), "")
		return
	}
	var res C20Result
	if json.Unmarshal(bytes.TrimSpace(stdout.Bytes()), &res) != nil {
		c.Count("inconclusive_child_output", 1)
		return
	}
	if res.Panic != "" {
		c.Violate("save-panic", "save-panic", id+": "+res.Panic, "")
		return
	}
	if strings.HasPrefix(res.Err, "build:") {
		c.Count("inconclusive_child_build_failed", 1)
		return
	}
	slog, _ := os.ReadFile(logPath)
	writes, ok := parseStrace(string(slog))
	if !ok {
		c.Count("inconclusive_markers_not_seen", 1)
		return
	}
	c.Count("syscalls_attributed_to_save", int64(len(writes)))
	after := snapshotTree(root)

	// which files should have been written
	wantWritten := spec.Files
	if failIdx >= 0 {
		wantWritten = spec.Files[:failIdx]
		if res.Err == "" {
			c.Violate("error-swallowed", "error-swallowed:save", fmt.Sprintf("%s: resolver failed on %s (file %d) but Save returned nil", id, spec.FailPath, failIdx), "")
		} else if !res.IsInjected {
			c.Violate("error-not-wrapped", "error-not-wrapped:save", id+": "+res.Err, "")
		}
	} else if res.Err != "" {
		c.Violate("save-error", "save-error", id+": "+res.Err, "")
		return
	}
	// system-call monitor: exactly those paths, once each, in order
	if strings.Join(writes, "\n") != strings.Join(wantWritten, "\n") {
		c.Violate("writes-differ", "writes-differ:"+scenario, fmt.Sprintf("%s: paths modified during Save:\n  %s\nexpected (Syntax order):\n  %s", id, strings.Join(writes, "\n  "), strings.Join(wantWritten, "\n  ")), "")
	}
	// snapshot monitor
	written := map[string]bool{}
	for _, w := range wantWritten {
		written[w] = true
	}
	for p, a := range after {
		b, existed := before[p]
		if !existed {
			c.Violate("file-created", "file-created", id+": "+p+" appeared during Save", "")
			continue
		}
		if a.mode != b.mode {
			c.Violate("mode-changed", "mode-changed", fmt.Sprintf("%s: %s mode %v -> %v", id, p, b.mode, a.mode), "")
		}
		if written[p] {
			if !bytes.Equal(a.data, expected[p]) {
				c.Violate("content-differs", "content-differs:"+scenario, id+": "+p+" does not hold the import-managed print of its file", string(orig[p]))
			}
			continue
		}
		if !bytes.Equal(a.data, b.data) {
			c.Violate("untouched-file-changed", "untouched-file-changed", id+": "+p+" changed although it should not have been written", "")
		}
	}
	for p := range before {
		if _, ok := after[p]; !ok {
			c.Violate("file-removed", "file-removed", id+": "+p+" disappeared during Save", "")
		}
	}
	// unedited canonical sources: identical bytes
	for k, fn := range spec.Files {
		if !spec.Edit[k] && written[fn] {
			if !bytes.Equal(after[fn].data, orig[fn]) {
				preds := textPredicates(orig[fn])
				c.Violate("unedited-file-changed", sigOf("unedited-file-changed", preds), id+": "+fn+" was not edited but its bytes changed", string(orig[fn]))
			}
			c.Count("unedited_files_identical_checked", 1)
		}
	}
	if strings.Join(res.Order, "\n") != strings.Join(spec.Files, "\n") {
		c.Violate("filenames", "filenames", fmt.Sprintf("%s: Decorator.Filenames in Syntax order %v, sources %v", id, res.Order, spec.Files), "")
	}
	c.Count("files_saved", int64(len(wantWritten)))
	if len(spec.Files) >= 2 {
		c.Nontrivial(scenario, fmt.Sprint(len(spec.Files), ndirs, failIdx), strings.Join(spec.Files, ","))
	}
	if i < 4 {
		c.Sample(map[string]interface{}{"case": id, "scenario": scenario, "files": len(spec.Files), "dirs": ndirs, "fail_index": failIdx, "writes_seen_by_strace": writes})
	}
}

// c20Typed: a small type-checked package (decorated as Load decorates: NewDecoratorFromPackage with
// the go/types resolver, which resolves unqualified identifiers too) whose files refer to each
// other's package-level identifiers; the package's own path is plain, under a vendor directory, or
// under GOROOT's vendor directory. Saved unedited: every file is written once and keeps its bytes.
func c20Typed(c *fw.Ctx, id string, i int, root, exe string) {
	c.Observe("scenarios", "typed-unedited")
	pkgPath := []string{"example.com/self", "root/vendor/foo/bar", "vendor/golang.org/x/bar", "example.com/govendor/bar"}[(i/5)%4]
	c.Observe("typed_package_paths", pkgPath)
	dir := filepath.Join(root, "d0")
	os.MkdirAll(dir, 0755)
	srcs := []string{
		"package bar\n\n// Helper does things.\nfunc Helper() int { return Exported + 1 }\n\n// Exported is exported.\nvar Exported = 2\n",
		"package bar\n\nimport (\n\t\"sort\"\n\t\"strings\"\n)\n\ntype T struct{ N int }\n\nfunc (t T) Use() int { return Helper() + t.N + Exported }\n\nfunc Up(s []string) string {\n\tsort.Strings(s)\n\treturn strings.ToUpper(strings.Join(s, Sep))\n}\n",
		"package bar\n\nconst Sep = \",\"\n\nvar _ = T{N: Helper()}\n\nvar list = []interface{}{\n\tHelper, // a function of this package\n\tExported,\n\tT{}.Use,\n}\n",
	}
	spec := &C20Spec{PkgPath: pkgPath, Mode: "typed", Names: map[string]string{"sort": "sort", "strings": "strings", "foo/bar": "bar", "golang.org/x/bar": "bar", pkgPath: "bar"}}
	orig := map[string][]byte{}
	n := 2 + (i/20)%2
	for k := 0; k < n; k++ {
		fn := filepath.Join(dir, fmt.Sprintf("t%d.go", k))
		src := []byte(srcs[k])
		if !corpus.Canonical(src) {
			c.Count("inconclusive_typed_source_not_canonical", 1)
			return
		}
		os.WriteFile(fn, src, 0644)
		orig[fn] = src
		spec.Files = append(spec.Files, fn)
		spec.Edit = append(spec.Edit, false)
	}
	if n == 2 {
		// t1.go refers to Sep of t2.go: declare it in the first file instead
		b := append(append([]byte{}, orig[spec.Files[0]]...), "\nconst Sep = \",\"\n"...)
		orig[spec.Files[0]] = b
		os.WriteFile(spec.Files[0], b, 0644)
	}
	os.WriteFile(filepath.Join(dir, "bystander.txt"), []byte("do not touch"), 0600)
	specPath := filepath.Join(root, "spec.json")
	sb, _ := json.Marshal(spec)
	os.WriteFile(specPath, sb, 0644)
	before := snapshotTree(root)
	logPath := filepath.Join(c.WorkDir, fmt.Sprintf("strace-%d.log", i))
	defer os.Remove(logPath)
	cmd := exec.Command("strace", "-f", "-o", logPath, "-e", "trace=open,openat,creat,rename,renameat,renameat2,unlink,unlinkat,mkdir,mkdirat,link,linkat,symlink,symlinkat,truncate,chmod,fchmodat,rmdir,access,faccessat,faccessat2", exe, "c20child", specPath)
	var stdout, stderr bytes.Buffer
	cmd.Stdout, cmd.Stderr = &stdout, &stderr
	if err := cmd.Run(); err != nil {
		c.Violate("child-died", "child-died", id+": "+err.Error()+"\n"+stderr.String(), "")
		return
	}
	var res C20Result
	if json.Unmarshal(bytes.TrimSpace(stdout.Bytes()), &res) != nil {
		c.Count("inconclusive_child_output", 1)
		return
	}
	if res.Panic != "" {
		c.Violate("save-panic", "save-panic", id+": "+res.Panic, "")
		return
	}
	if strings.HasPrefix(res.Err, "build:") {
		c.Count("inconclusive_child_build_failed", 1)
		return
	}
	if res.Err != "" {
		c.Violate("save-error", "save-error", id+": "+res.Err, "")
		return
	}
	slog, _ := os.ReadFile(logPath)
	writes, ok := parseStrace(string(slog))
	if !ok {
		c.Count("inconclusive_markers_not_seen", 1)
		return
	}
	c.Count("syscalls_attributed_to_save", int64(len(writes)))
	after := snapshotTree(root)
	if strings.Join(writes, "\n") != strings.Join(spec.Files, "\n") {
		c.Violate("writes-differ", "writes-differ:typed-unedited", fmt.Sprintf("%s: paths modified during Save:\n  %s\nexpected (Syntax order):\n  %s", id, strings.Join(writes, "\n  "), strings.Join(spec.Files, "\n  ")), "")
	}
	for p, a := range after {
		b, existed := before[p]
		if !existed {
			c.Violate("file-created", "file-created", id+": "+p+" appeared during Save", "")
			continue
		}
		if a.mode != b.mode {
			c.Violate("mode-changed", "mode-changed", fmt.Sprintf("%s: %s mode %v -> %v", id, p, b.mode, a.mode), "")
		}
		if !bytes.Equal(a.data, b.data) {
			c.Violate("unedited-file-changed", "unedited-file-changed:typed:"+map[bool]string{true: "vendored-own-path", false: "plain-own-path"}[strings.Contains(pkgPath, "vendor/")], fmt.Sprintf("%s: package %s: %s was not edited but its bytes changed:\n%s", id, pkgPath, p, a.data), string(b.data))
		}
	}
	for p := range before {
		if _, ok := after[p]; !ok {
			c.Violate("file-removed", "file-removed", id+": "+p+" disappeared during Save", "")
		}
	}
	if strings.Join(res.Order, "\n") != strings.Join(spec.Files, "\n") {
		c.Violate("filenames", "filenames", fmt.Sprintf("%s: Decorator.Filenames in Syntax order %v, sources %v", id, res.Order, spec.Files), "")
	}
	c.Count("unedited_files_identical_checked", int64(len(spec.Files)))
	c.Count("files_saved", int64(len(spec.Files)))
	c.Nontrivial("typed-unedited", pkgPath, fmt.Sprint(n))
}

var c20NoImport []string

type recordingResolver struct {
	inner resolver.RestorerResolver
	paths []string
}

func (r *recordingResolver) ResolvePackage(p string) (string, error) {
	r.paths = append(r.paths, p)
	return r.inner.ResolvePackage(p)
}
