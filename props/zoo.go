package props

import (
	"go/format"
	"strings"
	"verif/internal/gen"
)

// layoutZoo is a collection of small hand-written gofmt-canonical sources with comment and
// blank-line layouts that real files contain only rarely. Every entry is checked for canonicality
// at run time (non-canonical entries are skipped and counted), so the zoo never weakens an oracle.
func layoutZoo() map[string]string {
	m := baseZoo()
	for k, v := range m {
		// every entry takes part in its gofmt form (a fixed point of gofmt)
		if g, ok := gen.Canonicalise([]byte(v)); ok {
			m[k] = string(g)
		} else {
			delete(m, k)
		}
	}
	// the construct snippets, canonicalised, take part as well
	for k, v := range extraSnippets() {
		if strings.HasPrefix(k, "bad:") {
			continue
		}
		if g, err := format.Source([]byte(v)); err == nil {
			m["snippet-"+k] = string(g)
		}
	}
	return m
}

func baseZoo() map[string]string {
	return map[string]string{
		// trailing block comments in aligned blocks, in a file whose import declaration has no parentheses
		"aligned-trailing-block-comments": "package gen\n\nimport \"fmt\"\n\nconst (\n\tDebug = iota /* verbose */\n\tInfo /* default */\n\tWarning\n\tError /* last */\n)\n\ntype S struct {\n\tA int `json:\"a\"` /* first */\n\tBcd string /* second */\n\tfmt.Stringer /* embedded */\n\tlast bool\n}\n\nvar (\n\tx, y = 1, 2 /* pair */\n\tlonger int /* typed */\n)\n\nvar _ = fmt.Sprint\n",
		// comments and line breaks inside package-qualified identifiers
		"qualified-identifier-comments": "package p\n\nimport (\n\t\"fmt\"\n\t\"os\"\n)\n\nfunc f() {\n\tfmt. // why\n\t\tPrintln(\"a\")\n\tfmt.\n\t\t// own line\n\t\tPrintln(\"b\")\n\tfmt. /* blk */ Println(os. // x\n\t\t\t\tArgs)\n\tfmt.\n\t\tPrintln(os.\n\t\t\tArgs, // y\n\t\t)\n\t_ = []interface{}{\n\t\t// before\n\t\tos.Stdin, // after\n\t\tos. /* in */ Stdout,\n\t}\n}\n",
		"select-hanging": `package p

func f(a, b chan int) {
	select {
	case v := <-a:
		use(v)
		// trailing in first clause
	case <-b:
		// only a comment
	default:
		use(0)

		// after blank line
	}
}
`,
		"switch-hanging": `package p

func f(x int) {
	switch x {
	case 1:
		g()
		// hanging one
	case 2:
		// comment only clause
	case 3:
		g()

		// hanging after blank
	default:
	}
	switch y := x.(type) {
	case int:
		_ = y
		// hanging in type switch
	case string:
	}
}
`,
		"if-else-comments": `package p

func f(x int) {
	if x > 0 {
		g()
		// end of if body
	} else if x < 0 {
		// only comment
	} else {
		g()
	} // after else

	// before for
	for i := 0; i < x; i++ {
		// first in for
		g()
	}
}
`,
		"block-edges": `package p

func f() {
	// first line comment

	g()

	// last line comment
}

func empty() {
	// only a comment
}

func empty2() {}

func empty3() {
}
`,
		"struct-comments": `package p

// T doc.
type T struct {
	// A doc
	A int // A trailing

	// B doc after blank
	B string ` + "`json:\"b\"`" + ` // B trailing
	c, d int
	// hanging at end of struct
}

type I interface {
	// M doc
	M() // M trailing
	E   // embedded

	// N after blank
	N(x int) error
}
`,
		"call-and-literal": `package p

var v = f(
	1, // one
	// before two
	2,
	g(
		3,
	), // after g
)

var m = map[string][]int{
	// first key
	"a": {1, 2}, // a
	"b": {
		3, // three
		4,
	},

	// after blank
	"c": nil,
}
`,
		"decl-groups": `package p

import (
	"fmt" // fmt comment
	// before os
	"os"

	// third party
	"x.com/y"
)

const (
	A = iota // first
	B        // second

	// C after blank
	C
)

var (
	x, y = 1, 2 // both
	z    int    /* block */ // and line
)

// F doc
//
//go:noinline
func F() { fmt.Println(os.Args, y.Z) }
`,
		"inline-blocks": `package p

func f(a /* first */ int, b /* second */ ...string) (r /* result */ int) {
	x := g( /* no args */ )
	y := h(1 /* one */, 2 /* two */)
	if /* cond */ x > y /* after cond */ {
		return /* value */ x
	}
	return y /* end */
}
`,
		"labels-goto": `package p

func f() {
	// before label
L:
	// after label
	for {
		break L // break
	}
	goto M
M: // on label line
	g()
}
`,
		"func-literals": `package p

var f = func() {
	// inside literal
	g()
}

func h() {
	go func() {
		// goroutine
		g()
	}() // after call
	defer func() {
		g()
		// hanging in defer
	}()
}
`,
		"file-edges": `// Copyright.

//go:build linux

// Package p doc.
package p // package trailing

// after package

import "fmt"

// last decl
var _ = fmt.Sprint

// trailing file comment
`,
		"multiline-statements": `package p

func f() {
	x := g(1,
		2) // after multi-line call
	// next statement comment
	y := []int{
		1,
	} // after literal
	_ = x +
		y[0] // continuation
	switch {
	case x > 0 &&
		y[0] > 0:
		g()
	}
}
`,
		"generics": `package p

// G doc
type G[T any, // first
	U comparable] struct {
	v T // v
}

func F[
	T any, // t
	U any,
](x T, y U) {
	_ = G[T, int]{} // inst
}
`,
		"multiline-instantiation": `package p

type Pair[K comparable, V any] struct {
	Key K
	Val V
}

func MakePair[K comparable, V any](k K, v V) Pair[K, V] { return Pair[K, V]{k, v} }

var a = Pair[
	string,
	int,
]{}

var b = MakePair[
	string, // key
	int, // value
](
	"k",
	1,
)

type Alias = Pair[
	string,
	// the value type
	[]int,
]

func f(p Pair[
	string,
	int,
]) (r Pair[string,
	int]) {
	return Pair[string, int]{
		Key: "x",
		Val: 2,
	}
}
`,
		"multiline-signatures": `package p

type List[T any] []T

func a[
	K comparable,
	V List[K],
](
	items List[K],
	keep func(K) bool,
	m map[K]V,
	arr [3]int,
	s struct{},
	i interface{},
	ch <-chan K,
	p *List[K],
	q pkg.Name,
	v ...V,
) (
	r List[K],
	err error,
) {
	return
}

type S[
	T any,
] struct {
	a List[T]
	f func(
		x List[T],
		y map[string]List[T],
	) List[T]
}

var _ = a[
	int,
	List[int],
](
	List[int]{},
	nil,
	m[k],
	arr[1:2],
	x.(T),
	p.q[0],
)
`,
		"raw-strings": "package p\n\nimport (\n\t\"b\"\n\n\t\"a\"\n)\n\nvar s = `line1\nline2\nline3`\n\nfunc f() {\n\tg(1, `x\ny`)\n\th(`only\narg`, 2)\n\t_ = []string{\n\t\t`el\nem`,\n\t\t\"plain\",\n\t}\n\tk(`a\n\nb`, // trailing\n\t\t3)\n}\n\nconst c = `a\n` + \"b\"\n\nvar _ = a.X + b.Y\n",
		"multiline-trailing-block-comments": `package p

import (
	"a" /* imp
	ort */
	"b"
)

func f(
	a int,
	b string, /* x
	y */
) {
}

type T struct {
	x int /* first
	second */
	y int
}

var (
	v = 1 /* one
	two */
	w = 2
)

type (
	A int /* a
	b */
	B int
)
`,
		"embedded-field-comments": `package p

import "sync"

type T struct {
	sync.Mutex        // guards
	name       string // the name
	other      int    // other
	*Base             // embedded pointer
	io.Reader         // embedded interface
}

type I interface {
	fmt.Stringer // embedded
	M() int      // method
}
`,
		"label-at-end": `package p

func f(x int) {
	if x > 0 {
		goto done
	}
	for {
		break
	}
done:
	// nothing to do
}

func g() {
	{
		goto end
	end:
		// inner label at the end of a block
	}
L:
}

func h() {
	goto out
out:
	/* block comment after the last label */
}
`,
		"empty-bodies-with-comments": `package p

import ()

type E struct {
	// nothing in this struct
}

type I interface {
	// nothing in this interface
}

func f() {
	// nothing in this body
}

func g() {
	for {
		// nothing in this loop
	}
	switch {
	// nothing in this switch
	}
	select {
	// nothing in this select
	}
	if true {
		// nothing in this branch
	} else {
		// nothing in this one either
	}
	_ = []int{
		// nothing in this literal
	}
	h(
	// nothing in this call
	)
}

var (
	// nothing in this group
)

const ()
`,
		"rare-constructs": `package p

func f(xs []int, m map[string]int, ch chan int, v interface{}, args ...string) (n int, err error) {
	a := xs[1:2:3]
	b := xs[:2]
	c := xs[1:]
	s, ok := v.(string)
	_ = v.(fmt.Stringer)
	var send chan<- int = ch
	var recv <-chan int = ch
	arr := [...]int{1, 2, 3}
	g(args...)
	for range xs {
	}
	for i := range xs {
		_ = i
	}
	for k, e := range m {
		_, _ = k, e
	}
	for k = range m {
	}
outer:
	for {
		switch {
		case ok:
			fallthrough
		case a == nil:
			break outer
		default:
			continue outer
		}
	}
	select {
	case send <- 1:
	case x, ok := <-recv:
		_, _ = x, ok
	}
	p := &arr
	q := *p
	r := -n + ^n - (n * 2)
	h := G[int, string]{}
	t := (*T).M
	go func(x int) {}(1)
	defer h.Close()
	if x := len(s); x > 0 && !ok || b != nil {
		goto end
	}
	n++
	n += 2
	ch <- n
end:
	return n, nil
}

type U interface {
	~int | ~string
	comparable
}

type S struct {
	A, B int ` + "`k:\"v\"`" + `
	*T
	F func(int, ...string) (int, error)
	C chan struct{}
	M map[string][]*T
}
`,
		"chan-and-types": `package p

type (
	// C doc
	C chan<- int // send only

	D <-chan /* recv */ int
	E map[string] /* value */ []int
	F func(int) /* result */ error
)
`,
	}
}
