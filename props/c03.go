package props

import (
	"bytes"
	"fmt"
	"github.com/dave/dst"
	"github.com/dave/dst/decorator"
	"github.com/dave/dst/decorator/resolver/goast"
	"github.com/dave/dst/decorator/resolver/guess"
	"go/ast"
	"go/format"
	"go/parser"
	"go/token"
	"regexp"
	"sort"
	"strings"

	"verif/internal/corpus"
	"verif/internal/fw"
	"verif/internal/gen"
	"verif/internal/obs"
)

func init() {
	fw.Register(&fw.Check{
		ID:    "C03",
		Level: "exploration",
		Rule: "cases: corpus files under formatting transforms (identity, CRLF line endings, BOM prefix, tabs->spaces, indentation stripped, trailing whitespace added, blank lines " +
			"doubled, blank lines removed, whitespace-only blank lines, explicit semicolons, doubled spaces, a //line directive after the package clause with LF and with CRLF line endings), the non-canonical corpus files as they are, seeded comment/blank-line insertions WITHOUT canonicalisation, and an own-line / block / end-of-line comment placed before every token of the construct snippets in turn. " +
			"Oracle (go/scanner + go/format, independent of dst): output parses; token sequence (kind + literal text; semicolons and optional trailing commas ignored) equals that of " +
			"gofmt(input); comment sequence (whitespace-insensitive) equals gofmt's, or - where gofmt itself rewrote doc-comment text - equals the input's with the classes gofmt " +
			"reorders filtered out. distinct_nontrivial = distinct transformed inputs that differ from their gofmt form and contain a comment.",
		Floor: 500,
		Run:   runC03,
		Assumptions: []string{
			"go/format (go1.23.5) is the reference for token order and comment order",
			"when gofmt rewrites comment text (doc-comment reformatting) and dst's output matches neither gofmt's nor the input's comments the case is counted inconclusive, not violated",
		},
		Required: map[string]int{"transforms": 15},
	})
}

var buildLine = regexp.MustCompile(`^//(go:build|\s*\+build)\b`)

func c03Transform(name string, src []byte) []byte {
	s := string(src)
	switch name {
	case "identity":
		return src
	case "line-directive":
		// generated-code style: every reported line number after the directive is shifted
		if ld := c01WithLineDirective(src); ld != nil {
			return ld
		}
		return src
	case "line-directive+crlf":
		if ld := c01WithLineDirective(src); ld != nil {
			return []byte(strings.ReplaceAll(string(ld), "\n", "\r\n"))
		}
		return src
	case "crlf":
		return []byte(strings.ReplaceAll(s, "\n", "\r\n"))
	case "bom":
		return append([]byte("\xef\xbb\xbf"), src...)
	case "spaces":
		lines := strings.Split(s, "\n")
		for i, l := range lines {
			t := strings.TrimLeft(l, "\t")
			lines[i] = strings.Repeat("    ", len(l)-len(t)) + t
		}
		return []byte(strings.Join(lines, "\n"))
	case "noindent":
		lines := strings.Split(s, "\n")
		for i, l := range lines {
			lines[i] = strings.TrimLeft(l, "\t ")
		}
		return []byte(strings.Join(lines, "\n"))
	case "trailing-ws":
		lines := strings.Split(s, "\n")
		for i, l := range lines {
			if i%3 == 0 && l != "" {
				lines[i] = l + "  \t"
			}
		}
		return []byte(strings.Join(lines, "\n"))
	case "double-blank":
		return []byte(strings.ReplaceAll(s, "\n\n", "\n\n\n"))
	case "no-blank":
		for strings.Contains(s, "\n\n") {
			s = strings.ReplaceAll(s, "\n\n", "\n")
		}
		return []byte(s)
	case "ws-blank":
		return []byte(strings.ReplaceAll(s, "\n\n", "\n \t\n"))
	case "semicolons":
		// explicit semicolons after lines that end a simple statement or declaration
		lines := strings.Split(s, "\n")
		for i, l := range lines {
			t := strings.TrimSpace(l)
			if t == "" || strings.HasPrefix(t, "//") || strings.Contains(l, "`") || strings.Contains(l, "/*") || strings.Contains(l, "*/") {
				continue
			}
			if strings.HasSuffix(t, ")") || strings.HasSuffix(t, "++") || strings.HasSuffix(t, "--") || strings.HasSuffix(t, "]") {
				if i+1 < len(lines) && !strings.HasPrefix(strings.TrimSpace(lines[i+1]), ".") {
					lines[i] = l + ";"
				}
			}
		}
		return []byte(strings.Join(lines, "\n"))
	case "double-spaces":
		return []byte(strings.ReplaceAll(s, " ", "  "))
	}
	return src
}

var c03Transforms = []string{"identity", "crlf", "bom", "spaces", "noindent", "trailing-ws", "double-blank", "no-blank", "ws-blank", "semicolons", "double-spaces", "line-directive", "line-directive+crlf"}

func stripAll(cs []string) []string {
	out := make([]string, len(cs))
	for i, c := range cs {
		out[i] = obs.StripSpace(c)
	}
	return out
}

func sortedCopy(a []string) []string {
	b := append([]string(nil), a...)
	sort.Strings(b)
	return b
}

func eqStrings(a, b []string) bool {
	if len(a) != len(b) {
		return false
	}
	for i := range a {
		if a[i] != b[i] {
			return false
		}
	}
	return true
}

// filterReorderable drops the comment classes gofmt moves on its own: build constraints and
// //go: directives; comments inside import declarations are handled by the caller (importRange).
func filterReorderable(cs []string) []string {
	var out []string
	for _, c := range cs {
		if buildLine.MatchString(c) || strings.HasPrefix(c, "//go:") || strings.HasPrefix(c, "//+build") {
			continue
		}
		out = append(out, c)
	}
	return out
}

// c03Oracle checks one input. Returns verdict ("ok", "inconclusive:<why>", "violation") with rule and detail.
func c03Oracle(in []byte, out []byte) (verdict, rule, detail string) {
	g, err := format.Source(in)
	if err != nil {
		return "inconclusive:gofmt-rejects", "", ""
	}
	if !corpus.Parses(out) {
		return "violation", "output-does-not-parse", string(out[:min(len(out), 400)])
	}
	gt, _ := obs.Scan(g)
	ot, _ := obs.Scan(out)
	gs, os := obs.Syntax(gt), obs.Syntax(ot)
	if i := obs.FirstDiff(os, gs); i >= 0 {
		get := func(s []string, i int) string {
			lo, hi := i-3, i+4
			if lo < 0 {
				lo = 0
			}
			if hi > len(s) {
				hi = len(s)
			}
			return strings.ReplaceAll(strings.Join(s[lo:hi], " "), "\x00", ":")
		}
		return "violation", "tokens-differ", fmt.Sprintf("token #%d: gofmt has … %s …, dst has … %s … (%d vs %d tokens)", i, get(gs, i), get(os, i), len(gs), len(os))
	}
	// trailing commas are tokens too: gofmt keeps every line break of the source, so the comma
	// before a closing delimiter on its own line is the source's; dst must not invent or lose one
	if gs2, os2 := obs.SyntaxStrict(gt), obs.SyntaxStrict(ot); len(gs2) != len(os2) {
		if i := obs.FirstDiff(os2, gs2); i >= 0 {
			return "violation", "trailing-comma-differs", fmt.Sprintf("token #%d: gofmt has %d tokens, dst %d (a comma before a closing delimiter was added or dropped)", i, len(gs2), len(os2))
		}
	}
	it, _ := obs.Scan(in)
	G, O, I := stripAll(obs.Comments(gt)), stripAll(obs.Comments(ot)), stripAll(obs.Comments(it))
	if eqStrings(O, G) {
		return "ok", "", ""
	}
	// go/printer reformats a comment as a doc comment only when it sits in column 1 directly
	// above a declaration; a first gofmt pass can create that situation, so gofmt is not always
	// idempotent on comment text. dst's restored positions correspond to the second pass.
	g2, err2 := format.Source(g)
	idempotent := err2 == nil && bytes.Equal(g2, g)
	if !idempotent && err2 == nil {
		g2t, _ := obs.Scan(g2)
		if eqStrings(O, stripAll(obs.Comments(g2t))) {
			return "ok", "", ""
		}
	}
	// dst may legitimately keep the input's doc-comment text where gofmt rewrites it
	fO, fI, fG := filterReorderable(O), filterReorderable(I), filterReorderable(G)
	if eqStrings(fO, fI) {
		return "ok", "", ""
	}
	if !idempotent {
		return "inconclusive:gofmt-not-idempotent", "", ""
	}
	gofmtRewrote := !eqStrings(sortedCopy(G), sortedCopy(I))
	gofmtReordered := !eqStrings(fG, fI)
	if eqStrings(sortedCopy(O), sortedCopy(G)) || eqStrings(sortedCopy(fO), sortedCopy(fI)) {
		// same comments, different order
		if gofmtReordered && !eqStrings(fO, fG) && eqStrings(sortedCopy(fG), sortedCopy(fI)) {
			// gofmt moved comments in a way the reorder model does not explain (e.g. sorted import specs)
			return "inconclusive:gofmt-reorders-unmodelled", "", ""
		}
		if i := obs.FirstDiff(O, G); i >= 0 && eqStrings(sortedCopy(O), sortedCopy(G)) {
			return "violation", "comment-order", fmt.Sprintf("comment #%d: gofmt emits %q, dst emits %q", i, at(G, i), at(O, i))
		}
		i := obs.FirstDiff(fO, fI)
		return "violation", "comment-order", fmt.Sprintf("comment #%d (reorderable classes filtered): input has %q, dst emits %q", i, at(fI, i), at(fO, i))
	}
	if gofmtRewrote {
		return "inconclusive:gofmt-rewrites-comment-text", "", ""
	}
	// comment multiset differs from both
	missing, extra := multisetDiff(G, O)
	return "violation", "comments-differ", fmt.Sprintf("missing from dst output: %q; extra in dst output: %q", first(missing, 3), first(extra, 3))
}

// c03Header returns the texts of the line comments before the package keyword.
func c03Header(toks []obs.Tok) []string {
	var out []string
	for _, t := range toks {
		if t.Tok == token.PACKAGE {
			break
		}
		if t.Tok == token.COMMENT && strings.HasPrefix(t.Lit, "//") {
			out = append(out, strings.TrimRight(t.Lit, " \t\r"))
		}
	}
	return out
}

func at(s []string, i int) string {
	if i < 0 || i >= len(s) {
		return "<none>"
	}
	return s[i]
}

func first(s []string, n int) []string {
	if len(s) > n {
		return s[:n]
	}
	return s
}

func multisetDiff(want, got []string) (missing, extra []string) {
	m := map[string]int{}
	for _, w := range want {
		m[w]++
	}
	for _, g := range got {
		m[g]--
	}
	for k, v := range m {
		for ; v > 0; v-- {
			missing = append(missing, k)
		}
		for ; v < 0; v++ {
			extra = append(extra, k)
		}
	}
	sort.Strings(missing)
	sort.Strings(extra)
	return
}

func min(a, b int) int {
	if a < b {
		return a
	}
	return b
}

func c03Check(c *fw.Ctx, id, tr string, in []byte, reduceFrom []byte) {
	c03CheckVia(c, id, tr, in, rtParsePrint)
}

// rtImportsManaged: decorate with import management (syntax-only resolver), restore with import
// management (guessing resolver).
func rtImportsManaged(src []byte) ([]byte, error) {
	d := decorator.NewDecoratorWithImports(token.NewFileSet(), "example.com/self", goast.New())
	f, err := d.Parse(src)
	if err != nil {
		return nil, err
	}
	var buf bytes.Buffer
	if err := decorator.NewRestorerWithImports("example.com/self", guess.New()).Fprint(&buf, f); err != nil {
		return nil, err
	}
	return buf.Bytes(), nil
}

func c03CheckVia(c *fw.Ctx, id, tr string, in []byte, rtParsePrint func([]byte) ([]byte, error)) {
	c.Case(id, func() {
		c.Observe("transforms", tr)
		c.Count("inputs:"+tr, 1)
		out, err := rtParsePrint(in)
		if err != nil {
			c.Violate("error", "error:"+tr, id+": "+shortErr(err), string(in))
			return
		}
		verdict, rule, detail := c03Oracle(in, out)
		switch {
		case verdict == "ok":
			c.Count("held", 1)
			g, _ := format.Source(in)
			if !bytes.Equal(g, in) && (bytes.Contains(in, []byte("//")) || bytes.Contains(in, []byte("/*"))) {
				c.Nontrivial(string(in))
			}
		case strings.HasPrefix(verdict, "inconclusive"):
			c.Count(verdict, 1)
		default:
			// root cause: does the violation disappear once line endings and whitespace-only
			// lines are normalised (a dst-independent rewrite of the input)? Then it is the
			// line-ending family; otherwise the predicates of the normalised input classify it.
			preds := textPredicates(in)
			norm := normaliseLines(in)
			if !bytes.Equal(norm, in) {
				if nout, nerr := rtParsePrint(norm); nerr == nil {
					if v, _, _ := c03Oracle(norm, nout); v == "violation" {
						preds = textPredicates(norm)
					} else {
						// cured by normalising the line endings: only those predicates name the cause
						var le []string
						for _, p := range preds {
							if p == "crlf" || p == "whitespace-only-line" {
								le = append(le, p)
							}
						}
						preds = le
					}
				}
			}
			// predicates that cannot matter without import management are dropped
			var rel []string
			for _, p := range preds {
				if p != "duplicate-import-path" && p != "bom" {
					rel = append(rel, p)
				}
			}
			c.Violate(rule+"/"+tr, sigOf(rule, rel), id+": "+detail, string(in))
		}
	})
}

func runC03(c *fw.Ctx) {
	files := corpus.Sample(c.Rand("files"), c.Pick(450, 0))
	for i, p := range files {
		if !c.Mine(i) {
			continue
		}
		src := readFile(p)
		if src == nil || !corpus.Parses(src) {
			continue
		}
		canonical := corpus.Canonical(src)
		if !canonical {
			c03Check(c, "noncanonical:"+corpus.Rel(p), "as-is-noncanonical", src, nil)
		}
		trs := c03Transforms
		if c.Quick() {
			// rotate: 4 transforms per file in the quick tier
			k := i % len(c03Transforms)
			n := len(c03Transforms)
			trs = []string{c03Transforms[k], c03Transforms[(k+2)%n], c03Transforms[(k+4)%n], c03Transforms[(k+7)%n], c03Transforms[(k+9)%n]}
		}
		for _, tr := range trs {
			in := c03Transform(tr, src)
			if !corpus.Parses(in) {
				c.Count("inconclusive:transform-breaks-parse", 1)
				continue
			}
			c03Check(c, "tr:"+corpus.Rel(p)+"/"+tr, tr, in, src)
		}
		// raw comment insertions, no canonicalisation
		if len(src) < 60000 {
			for rec := 0; rec < c.Pick(2, 4); rec++ {
				mr := c.Rand(fmt.Sprintf("mut/%s/%d", p, rec))
				edits := gen.CommentEdits(mr, src, 1+mr.Intn(15), []string{"block", "eol", "own", "blank", "ownblk", "mlblk"}, 5000)
				in := gen.ApplyEdits(src, edits)
				if !corpus.Parses(in) {
					c.Count("inconclusive:mutation-breaks-parse", 1)
					continue
				}
				c03Check(c, fmt.Sprintf("rawmut:%s/%d", corpus.Rel(p), rec), "raw-comment-insertion", in, src)
			}
		}
	}
	zoo := layoutZoo()
	var zkeys []string
	for k := range zoo {
		zkeys = append(zkeys, k)
	}
	sortStrings(zkeys)
	for zi, k := range zkeys {
		if !c.Mine(zi) {
			continue
		}
		src := zoo[k]
		for _, tr := range c03Transforms {
			in := c03Transform(tr, []byte(src))
			if !corpus.Parses(in) {
				continue
			}
			c03Check(c, "zoo:"+k+"/"+tr, tr, in, []byte(src))
		}
	}
	// every token boundary of the construct snippets: an own-line comment, a block comment and an
	// end-of-line comment placed directly before each token in turn (no canonicalisation)
	gi := 0
	for _, k := range zkeys {
		src := []byte(zoo[k])
		toks, _ := obs.Scan(src)
		for ti, t := range toks {
			if t.Tok == token.SEMICOLON && t.Lit == "\n" {
				continue
			}
			for vi, ins := range []string{"\n// own-line\n", "/*blk*/ ", "// eol\n"} {
				i := gi
				gi++
				if !c.Mine(i) || (c.Quick() && (ti+vi+len(k))%3 != 0) {
					continue
				}
				in := append(append(append([]byte{}, src[:t.Off]...), ins...), src[t.Off:]...)
				if !corpus.Parses(in) {
					c.Count("inconclusive:mutation-breaks-parse", 1)
					continue
				}
				c03Check(c, fmt.Sprintf("tokgap:%s/%d/%d", k, ti, vi), "token-gap-comment", in, src)
			}
		}
	}
	// the same insertions with import management on both sides, over files that use package-qualified
	// identifiers in many syntactic positions (the identifier-to-selector collapse has decoration
	// handling of its own); only files that import management leaves alone are used
	ctx := c08ContextFiles()
	var ckeys []string
	for k := range ctx {
		ckeys = append(ckeys, k)
	}
	sortStrings(ckeys)
	for _, k := range ckeys {
		src := []byte(ctx[k])
		if base, err := rtImportsManaged(src); err != nil || !bytes.Equal(base, src) {
			c.Count("inconclusive:import-management-rewrites-base", 1)
			continue
		}
		toks, _ := obs.Scan(src)
		inImports := false
		for ti, t := range toks {
			if t.Tok == token.IMPORT {
				inImports = true
			} else if t.Tok == token.FUNC || t.Tok == token.TYPE || t.Tok == token.VAR || t.Tok == token.CONST {
				inImports = false
			}
			if inImports || (t.Tok == token.SEMICOLON && t.Lit == "\n") {
				continue
			}
			for vi, ins := range []string{"\n// own-line\n", "/*blk*/ ", "// eol\n"} {
				i := gi
				gi++
				if !c.Mine(i) || (c.Quick() && (ti+vi+len(k))%2 != 0) {
					continue
				}
				in := append(append(append([]byte{}, src[:t.Off]...), ins...), src[t.Off:]...)
				if !corpus.Parses(in) {
					c.Count("inconclusive:mutation-breaks-parse", 1)
					continue
				}
				c03CheckVia(c, fmt.Sprintf("tokgap-imports:%s/%d/%d", k, ti, vi), "token-gap-comment+import-management", in, rtImportsManaged)
			}
		}
	}
	// files decorated as members of a package (what ParseDir does): tiny files without declarations
	// (doc.go style, imports only, a bare package clause) next to ordinary files, and every construct
	// snippet next to tiny files; each file is printed and judged like a file decorated alone
	tiny := []string{
		"// Copyright notice.\n\n// Package p has documentation only.\npackage p // trailing\n\n// a comment that ends the file\n",
		"package p\n",
		"/* block header */\n\npackage p\n\nimport (\n\t\"fmt\" // for printing\n\t_ \"os\"\n)\n\n// the imports are all there is\n",
		"//go:build ignore\n\npackage p /* inline */\n// directly below the clause",
	}
	inPackage := func(companions []string) func([]byte) ([]byte, error) {
		return func(in []byte) ([]byte, error) {
			fset := token.NewFileSet()
			af, err := parser.ParseFile(fset, "in.go", in, parser.ParseComments)
			if err != nil {
				return nil, err
			}
			files := map[string]*ast.File{"in.go": af}
			for k, cs := range companions {
				if cf, err := parser.ParseFile(fset, fmt.Sprintf("companion%d.go", k), cs, parser.ParseComments); err == nil {
					files[fmt.Sprintf("companion%d.go", k)] = cf
				}
			}
			dn, err := decorator.NewDecorator(fset).DecorateNode(&ast.Package{Name: af.Name.Name, Files: files})
			if err != nil {
				return nil, err
			}
			dp, ok := dn.(*dst.Package)
			if !ok || dp.Files["in.go"] == nil {
				return nil, fmt.Errorf("the decorated package has no file in.go")
			}
			var buf bytes.Buffer
			if err := decorator.Fprint(&buf, dp.Files["in.go"]); err != nil {
				return nil, err
			}
			return buf.Bytes(), nil
		}
	}
	pi := 0
	for ti, t := range tiny {
		for zi, k := range zkeys {
			i := pi
			pi++
			if !c.Mine(i) || (c.Quick() && (ti+zi)%4 != 0) {
				continue
			}
			// the tiny file as a member of a package with a construct snippet, and the other way round
			c03CheckVia(c, fmt.Sprintf("in-package:tiny%d+%s", ti, k), "member-of-a-package", []byte(t), inPackage([]string{zoo[k], tiny[(ti+1)%len(tiny)]}))
			c03CheckVia(c, fmt.Sprintf("in-package:%s+tiny%d", k, ti), "member-of-a-package", []byte(zoo[k]), inPackage([]string{t}))
		}
	}
	// the file entry point with every parser mode a caller may pass (comments are always kept)
	modes := []struct {
		name string
		m    parser.Mode
	}{{"zero", 0}, {"AllErrors", parser.AllErrors}, {"SkipObjectResolution", parser.SkipObjectResolution}, {"DeclarationErrors", parser.DeclarationErrors},
		{"ParseComments|AllErrors", parser.ParseComments | parser.AllErrors}, {"Trace-free-combination", parser.AllErrors | parser.SkipObjectResolution | parser.DeclarationErrors}}
	mi := 0
	for _, k := range zkeys {
		for _, md := range modes {
			i := mi
			mi++
			if !c.Mine(i) || (c.Quick() && i%3 != 0) {
				continue
			}
			md := md
			c03CheckVia(c, fmt.Sprintf("parse-mode:%s/%s", k, md.name), "ParseFile-with-mode", []byte(zoo[k]), func(in []byte) ([]byte, error) {
				f, err := decorator.ParseFile(token.NewFileSet(), "in.go", in, md.m)
				if err != nil {
					return nil, err
				}
				var buf bytes.Buffer
				if err := decorator.Fprint(&buf, f); err != nil {
					return nil, err
				}
				return buf.Bytes(), nil
			})
		}
	}
	// the comment that opens a file: one or two comment lines in canonical and non-canonical form
	// (no space after the slashes, extra spaces, empty, block), at column 1 or behind a byte-order
	// mark / blanks, directly followed by the package clause or separated from it by an empty line.
	// dst positions these comments so that go/printer does not take them for a doc comment (and so
	// does not rewrite them): here their texts must be exactly the input's
	fi := 0
	for _, head := range []string{"//Package p", "//   indented text", "//", "// canonical", "/*block*/", "/* block\n   two lines */", "//first\n//second", "//go:generate true", "//\n// after an empty comment line", "//x\n\n// second group", "//x\n\n//y"} {
		for _, prefix := range []string{"", "\xef\xbb\xbf", " ", "\t", "\n"} {
			for _, sep := range []string{"\n", "\n\n", " "} {
				i := fi
				fi++
				if !c.Mine(i) {
					continue
				}
				if sep == " " && !strings.HasPrefix(head, "/*") {
					continue
				}
				in := []byte(prefix + head + sep + "package p\n\nfunc f() {}\n")
				if !corpus.Parses(in) {
					continue
				}
				id := fmt.Sprintf("first-line-comment:%d", i)
				c03Check(c, id, "first-line-comment", in, in)
				c.Case(id+"/exact", func() {
					out, err := rtParsePrint(in)
					if err != nil {
						return
					}
					it, _ := obs.Scan(in)
					ot, _ := obs.Scan(out)
					if hi, ho := c03Header(it), c03Header(ot); !eqStrings(hi, ho) {
						c.Violate("header-comment-rewritten", "header-comment-rewritten", fmt.Sprintf("%s: line comments above the package clause: input %q, dst output %q", id, hi, ho), string(in))
						return
					}
					c.Count("header_comments_exact", 1)
				})
			}
		}
	}
	// comments at every combination of three indentation levels directly after a statement whose
	// last line is indented deeper than its first (clause bodies, continuation lines): not gofmt
	// layouts, but parseable, and every comment must come back in gofmt's order
	hi := 0
	for _, shape := range []struct {
		name, before, after string
		base                int
	}{
		{"case-body", "package p\n\nfunc f(x int) {\n\tswitch x {\n\tcase 1:\n\t\ta()\n", "\tcase 2:\n\t\tb()\n\t}\n}\n", 1},
		{"comm-body", "package p\n\nfunc f(c chan int) {\n\tselect {\n\tcase <-c:\n\t\ta()\n", "\tdefault:\n\t}\n}\n", 1},
		{"continuation", "package p\n\nfunc f() {\n\tg(1,\n\t\t2)\n", "\th()\n}\n", 1},
		{"last-in-block", "package p\n\nfunc f() {\n\tif x {\n\t\tg(1,\n\t\t\t2)\n", "\t}\n}\n", 2},
	} {
		for pat := 0; pat < 27; pat++ {
			i := hi
			hi++
			if !c.Mine(i) {
				continue
			}
			var sb strings.Builder
			sb.WriteString(shape.before)
			x := pat
			for k := 0; k < 3; k++ {
				sb.WriteString(strings.Repeat("\t", shape.base+x%3-0) + fmt.Sprintf("// c%d\n", k+1))
				x /= 3
			}
			sb.WriteString(shape.after)
			in := []byte(sb.String())
			if !corpus.Parses(in) {
				continue
			}
			c03Check(c, fmt.Sprintf("indent-pattern:%s/%d", shape.name, pat), "comment-indent-patterns", in, in)
		}
	}

	// several files printed in turn by one FileRestorer (it is reset by every RestoreFile): each
	// output is judged like a single print, provided the file on its own is fine
	var seqSrcs [][]byte
	for _, k := range zkeys {
		seqSrcs = append(seqSrcs, []byte(zoo[k]))
	}
	for i, p := range files {
		if i%4 == 0 {
			if src := readFile(p); src != nil && len(src) < 60000 && corpus.Parses(src) {
				seqSrcs = append(seqSrcs, src)
			}
		}
	}
	for g := 0; g+2 < len(seqSrcs); g += 3 {
		if !c.Mine(g / 3) {
			continue
		}
		group := seqSrcs[g : g+3]
		id := fmt.Sprintf("sequence:%d", g/3)
		c.Case(id, func() {
			c.Observe("transforms", "one-file-restorer-for-three-files")
			fr := decorator.NewRestorer().FileRestorer()
			for k, in := range group {
				alone, aerr := rtParsePrint(in)
				if aerr != nil {
					return
				}
				if v, _, _ := c03Oracle(in, alone); v != "ok" {
					continue // classified by the single-file workloads
				}
				f, err := decorator.Parse(in)
				if err != nil {
					return
				}
				var buf bytes.Buffer
				if sig, detail := fw.Try(func() { err = fr.Fprint(&buf, f) }); sig != "" {
					c.Violate("panic/one-file-restorer-for-three-files", sig, fmt.Sprintf("%s file #%d\n%s", id, k, detail), string(in))
					return
				}
				if err != nil {
					c.Violate("error/one-file-restorer-for-three-files", "error:file-restorer-reused", fmt.Sprintf("%s file #%d: %s", id, k, shortErr(err)), string(in))
					return
				}
				if v, rule, detail := c03Oracle(in, buf.Bytes()); v == "violation" {
					c.Violate(rule+"/one-file-restorer-for-three-files", rule+":file-restorer-reused", fmt.Sprintf("%s file #%d (printed alone it is fine): %s", id, k, detail), string(in))
					return
				}
				c.Count("held", 1)
			}
			c.Count("inputs:one-file-restorer-for-three-files", 3)
			c.Nontrivial(id)
		})
	}
	if c.Shard == 0 {
		c.Sample(map[string]interface{}{"transforms": c03Transforms, "note": "each case = one (file, transform) pair"})
	}
}

var wsOnlyLine = regexp.MustCompile(`(?m)^[ \t]+$`)

// normaliseLines turns CRLF into LF and empties whitespace-only lines.
func normaliseLines(in []byte) []byte {
	out := bytes.ReplaceAll(in, []byte("\r\n"), []byte("\n"))
	return wsOnlyLine.ReplaceAll(out, nil)
}
