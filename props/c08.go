package props

import (
	"bytes"
	"fmt"
	"go/ast"
	"go/build"
	"go/format"
	"go/importer"
	"go/parser"
	"go/token"
	"go/types"
	"os"
	"path/filepath"
	"runtime"
	"sort"
	"strings"
	"sync"

	"github.com/dave/dst"
	"github.com/dave/dst/decorator"
	"github.com/dave/dst/decorator/resolver"
	"github.com/dave/dst/decorator/resolver/goast"
	"github.com/dave/dst/decorator/resolver/gotypes"
	"github.com/dave/dst/decorator/resolver/guess"
	"github.com/dave/dst/decorator/resolver/simple"

	"verif/internal/corpus"
	"verif/internal/fw"
	"verif/internal/gen"
	"verif/internal/obs"
)

func init() {
	fw.Register(&fw.Check{
		ID:    "C08",
		Level: "exploration",
		Rule: "cases: gofmt-canonical corpus files with imports, (a) decorated with goast.WithResolver(exact name map) and (b) - for standard-library packages type-checked from source with " +
			"go/types (importer \"source\") - with gotypes; restored with import management through simple(exact map) and guess.WithMap(exact map); plus the same files with seeded block " +
			"comments and line breaks inserted before / after the dot of qualified identifiers and around import specs (canonicalised, gofmt-idempotent only). Package names are read " +
			"from the package clauses under GOROOT/src, independently of dst. Oracle: output bytes == input bytes; the (Name, Path) sequence over dst.Inspect of the re-decorated " +
			"output equals that of the first decoration. distinct_nontrivial = distinct (file, resolver pair) with at least one qualified identifier collapsed.",
		Floor: 150,
		Run:   runC08,
		Assumptions: []string{
			"'accurate resolver' = exact path->name map built from package clauses (std) or go/types package names",
			"files whose imports cannot all be named independently are skipped and counted",
		},
		Required: map[string]int{"resolver_pairs": 3},
	})
}

func identPaths(f *dst.File) []string {
	var out []string
	dst.Inspect(f, func(n dst.Node) bool {
		if id, ok := n.(*dst.Ident); ok {
			out = append(out, id.Name+"@"+id.Path)
		}
		return true
	})
	return out
}

// typeCheckCache type-checks standard-library package directories from source, once per process.
type tcResult struct {
	fset  *token.FileSet
	files map[string]*ast.File // by absolute path
	info  *types.Info
	pkg   *types.Package
	err   error
}

var (
	tcMu    sync.Mutex
	tcCache = map[string]*tcResult{}
	tcImp   types.Importer
	tcFset  = token.NewFileSet()
)

func typeCheckDir(dir string) *tcResult {
	tcMu.Lock()
	defer tcMu.Unlock()
	if r, ok := tcCache[dir]; ok {
		return r
	}
	res := &tcResult{fset: tcFset, files: map[string]*ast.File{}}
	tcCache[dir] = res
	bp, err := build.Default.ImportDir(dir, 0)
	if err != nil || len(bp.CgoFiles) > 0 {
		res.err = fmt.Errorf("not buildable from source here: %v", err)
		return res
	}
	var files []*ast.File
	for _, fn := range bp.GoFiles {
		p := filepath.Join(dir, fn)
		// the file is parsed under its GOROOT name (the corpus root is the symlink-resolved
		// directory): go/build only finds the packages vendored into the standard library
		// (reported as "vendor/golang.org/x/...") for importers located inside GOROOT/src
		parseAs := p
		if rel, rerr := filepath.Rel(corpusRoot(), p); rerr == nil && !strings.HasPrefix(rel, "..") {
			if gp := filepath.Join(runtime.GOROOT(), "src", rel); fileExists(gp) {
				parseAs = gp
			}
		}
		f, err := parser.ParseFile(tcFset, parseAs, nil, parser.ParseComments)
		if err != nil {
			res.err = err
			return res
		}
		files = append(files, f)
		res.files[p] = f
	}
	if tcImp == nil {
		tcImp = importer.ForCompiler(tcFset, "source", nil)
	}
	res.info = &types.Info{Uses: map[*ast.Ident]types.Object{}, Defs: map[*ast.Ident]types.Object{}, Selections: map[*ast.SelectorExpr]*types.Selection{}, Implicits: map[ast.Node]types.Object{}}
	conf := types.Config{Importer: tcImp, FakeImportC: true, Error: func(error) {}}
	path := strings.TrimPrefix(dir, corpusRoot()+"/")
	pkg, err := conf.Check(path, tcFset, files, res.info)
	res.pkg = pkg
	if err != nil {
		res.err = err
	}
	return res
}

func fileExists(p string) bool {
	st, err := os.Stat(p)
	return err == nil && !st.IsDir()
}

func corpusRoot() string {
	for _, p := range corpus.Files() {
		if i := strings.Index(p, "/src/"); i >= 0 && strings.Contains(p, "go-1") {
			return p[:i+4]
		}
	}
	return "/usr/share/go-1.23/src"
}

// c08Run decorates src with dres, restores with rres, and checks transparency.
func c08Run(c *fw.Ctx, id, pair string, src []byte, decorate func() (*dst.File, error), rres resolver.RestorerResolver, redecorate func([]byte) (*dst.File, error)) {
	c.Case(id+"/"+pair, func() {
		c.Observe("resolver_pairs", pair)
		df, err := decorate()
		if err != nil {
			c.Count("inconclusive_decorator_resolver_refused:"+pair, 1)
			return
		}
		collapsed := 0
		for _, p := range identPaths(df) {
			if !strings.HasSuffix(p, "@") {
				collapsed++
			}
		}
		before := identPaths(df)
		r := decorator.NewRestorerWithImports("example.com/self", rres)
		var buf bytes.Buffer
		if sig, detail := fw.Try(func() { err = r.Fprint(&buf, df) }); sig != "" {
			c.Violate("panic", sig, id+"/"+pair+"\n"+detail, string(src))
			return
		}
		if err != nil {
			c.Violate("restore-error", "restore-error:"+pair, id+": "+shortErr(err), string(src))
			return
		}
		c.Count("files:"+pair, 1)
		c.Count("qualified_identifiers_collapsed", int64(collapsed))
		if !bytes.Equal(buf.Bytes(), src) {
			// a file that round-trips without import management fails here because of its
			// imports: of the textual predicates only the import-related one can name the cause
			var preds []string
			for _, p := range textPredicates(src) {
				if p == "duplicate-import-path" {
					preds = append(preds, p)
				}
			}
			if c01FailsAny(src) {
				// the file does not round-trip even without import management: same root cause
				// and same classification as under C01
				sig, _ := c01Signature(src)
				preds = strings.Split(strings.TrimPrefix(sig, "roundtrip:"), "+")
			}
			c.Violate("not-transparent/"+pair, sigOf("not-transparent", preds), id+" ["+pair+"]: "+obs.DiffContext(buf.Bytes(), src), string(src))
			return
		}
		if redecorate != nil {
			df2, err := redecorate(buf.Bytes())
			if err != nil {
				c.Violate("redecorate-error", "redecorate-error:"+pair, id+": "+shortErr(err), string(src))
				return
			}
			after := identPaths(df2)
			if i := obs.FirstDiff(before, after); i >= 0 {
				c.Violate("paths-differ-after-redecorate", "paths-differ-after-redecorate:"+pair, fmt.Sprintf("%s: identifier #%d was %q, after re-decorating the output %q", id, i, at(before, i), at(after, i)), string(src))
			}
		}
		if collapsed > 0 {
			c.Nontrivial(id, pair)
		}
	})
}

func runC08(c *fw.Ctx) {
	// a syntax-only resolver that lives as long as the process and names every package exactly
	sharedGoast := goast.WithResolver(c08AllNames{})
	// (a) goast with an exact map, over the corpus
	files := corpus.Sample(c.Rand("files"), c.Pick(500, 0))
	for i, p := range files {
		if !c.Mine(i) {
			continue
		}
		src := readFile(p)
		if src == nil || !bytes.Contains(src, []byte("import")) || !corpus.Canonical(src) {
			continue
		}
		names, ok := corpus.ImportNames(src)
		if !ok || len(names) == 0 {
			c.Count("skipped_import_names_unknown", 1)
			continue
		}
		id := "file:" + corpus.Rel(p)
		dec := func(s []byte) (*dst.File, error) {
			d := decorator.NewDecoratorWithImports(token.NewFileSet(), "example.com/self", goast.WithResolver(simple.New(names)))
			return d.Parse(s)
		}
		c08Run(c, id, "goast+simple", src, func() (*dst.File, error) { return dec(src) }, simple.New(names), dec)
		c08Run(c, id, "goast+guess.WithMap", src, func() (*dst.File, error) { return dec(src) }, guess.WithMap(names), dec)
		// one syntax-only resolver shared by all the decorators of this process, each of which has a
		// file set of its own (positions of different files coincide)
		decShared := func(s []byte) (*dst.File, error) {
			return decorator.NewDecoratorWithImports(token.NewFileSet(), "example.com/self", sharedGoast).Parse(s)
		}
		c08Run(c, id, "goast(shared, own file sets)+simple", src, func() (*dst.File, error) { return decShared(src) }, simple.New(names), decShared)

		// comments / line breaks around the dot of qualified identifiers and in import specs
		if len(src) < 50000 {
			for rec := 0; rec < c.Pick(2, 5); rec++ {
				mr := c.Rand(fmt.Sprintf("dot/%s/%d", p, rec))
				edits := dotEdits(mr, src, names, 1+mr.Intn(6))
				if len(edits) == 0 {
					continue
				}
				msrc, ok := gen.Canonicalise(gen.ApplyEdits(src, edits))
				if !ok || !corpus.Parses(msrc) {
					c.Count("inconclusive_gofmt_not_idempotent", 1)
					continue
				}
				for _, e := range edits {
					c.Count("inserted:"+e.Kind, 1)
				}
				c08Run(c, fmt.Sprintf("dot:%s/%d", corpus.Rel(p), rec), "goast+simple/dot-mutations", msrc, func() (*dst.File, error) { return dec(msrc) }, simple.New(names), dec)
			}
		}
	}

	// (a3) hand-written import shapes that real files contain rarely
	for k, src := range importZoo() {
		i := len(k) // cheap deterministic spread over shards
		if !c.Mine(i) {
			continue
		}
		b := []byte(src)
		if !corpus.Canonical(b) {
			c.Count("zoo_entries_not_canonical", 1)
			continue
		}
		names := map[string]string{"fmt": "fmt", "os": "os", "image/png": "png", "image/jpeg": "jpeg", "embed": "embed", "net/http/pprof": "pprof",
			"math/rand": "rand", "crypto/rand": "rand", "x.com/y/log": "log", "log": "log", "gopkg.in/yaml.v2": "yaml", "strings": "strings", "unsafe": "unsafe", "io": "io", "net/url": "url", "bytes": "bytes", "unicode": "unicode"}
		dec := func(s []byte) (*dst.File, error) {
			d := decorator.NewDecoratorWithImports(token.NewFileSet(), "example.com/self", goast.WithResolver(simple.New(names)))
			return d.Parse(s)
		}
		c08Run(c, "zoo:"+k, "goast+simple", b, func() (*dst.File, error) { return dec(b) }, simple.New(names), dec)
		c08Run(c, "zoo:"+k, "goast+guess.WithMap", b, func() (*dst.File, error) { return dec(b) }, guess.WithMap(names), dec)
		decShared := func(s []byte) (*dst.File, error) {
			return decorator.NewDecoratorWithImports(token.NewFileSet(), "example.com/self", sharedGoast).Parse(s)
		}
		c08Run(c, "zoo:"+k, "goast(shared, own file sets)+simple", b, func() (*dst.File, error) { return decShared(b) }, simple.New(names), decShared)
	}

	// (a5) every qualified identifier of the context files x every insertion variant, one at a time
	ctxNames := map[string]string{"fmt": "fmt", "os": "os", "strings": "strings", "sync": "sync"}
	ci := 0
	for ck, csrc := range c08ContextFiles() {
		b0, ok := gen.Canonicalise([]byte(csrc))
		if !ok {
			continue
		}
		for si, st := range dotSites(b0, ctxNames) {
			for vi, ed := range dotEditVariants(st, "#x") {
				i := ci
				ci++
				if !c.Mine(i) {
					continue
				}
				msrc, ok := gen.Canonicalise(gen.ApplyEdits(b0, ed))
				if !ok || bytes.Equal(msrc, b0) {
					c.Count("exhaustive_variants_not_canonicalisable", 1)
					continue
				}
				dec := func(s []byte) (*dst.File, error) {
					d := decorator.NewDecoratorWithImports(token.NewFileSet(), "example.com/self", goast.WithResolver(simple.New(ctxNames)))
					return d.Parse(s)
				}
				c.Observe("exhaustive_edit_kinds", ed[len(ed)-1].Kind)
				c08Run(c, fmt.Sprintf("ctx:%s/site%d/variant%d", ck, si, vi), "goast+simple/site-exhaustive", msrc, func() (*dst.File, error) { return dec(msrc) }, simple.New(ctxNames), dec)
			}
		}
	}

	// (a4) generated import sections: 1-3 blocks of 1-3 specs, parenthesised or not, aliases,
	// blank imports, comments; every named import is referenced, so nothing has to change
	ngen := c.Pick(1500, 60000)
	for g := 0; g < ngen; g++ {
		if !c.Mine(g) {
			continue
		}
		gr := c.Rand(fmt.Sprintf("gen-imports/%d", g))
		src, names := c08GenImports(gr)
		b := []byte(src)
		if !corpus.Canonical(b) {
			c.Count("generated_import_sections_not_canonical", 1)
			continue
		}
		dec := func(s []byte) (*dst.File, error) {
			d := decorator.NewDecoratorWithImports(token.NewFileSet(), "example.com/self", goast.WithResolver(simple.New(names)))
			return d.Parse(s)
		}
		var rres resolver.RestorerResolver = simple.New(names)
		pair := "goast+simple/generated-imports"
		if g%2 == 1 {
			rres = guess.WithMap(names)
			pair = "goast+guess.WithMap/generated-imports"
		}
		c08Run(c, fmt.Sprintf("gen-imports:%d", g), pair, b, func() (*dst.File, error) { return dec(b) }, rres, dec)
	}

	// (c) gotypes over generated multi-package programs
	c08Generated(c)

	// (d) whole directories through the import-resolving Decorator.ParseDir: every file is resolved
	// against its own imports and must restore byte for byte
	c08ParseDir(c)

	// (b) gotypes over type-checked std packages
	dirs := c08Dirs(c)
	for i, dir := range dirs {
		if !c.Mine(i) {
			continue
		}
		tc := typeCheckDir(dir)
		if tc.err != nil || tc.info == nil {
			c.Count("inconclusive_typecheck_failed", 1)
			continue
		}
		c.Count("packages_typechecked", 1)
		var fns []string
		for fn := range tc.files {
			fns = append(fns, fn)
		}
		sort.Strings(fns)
		for _, fn := range fns {
			src := readFile(fn)
			if src == nil || !corpus.Canonical(src) || !bytes.Contains(src, []byte("import")) {
				continue
			}
			names, ok := corpus.ImportNames(src)
			if !ok {
				continue
			}
			af := tc.files[fn]
			pkgPath := tc.pkg.Path()
			id := "typed:" + corpus.Rel(fn)
			c08Run(c, id, "gotypes+simple", src, func() (*dst.File, error) {
				d := decorator.NewDecoratorWithImports(tc.fset, pkgPath, gotypes.New(tc.info.Uses))
				return d.DecorateFile(af)
			}, simple.New(names), nil)
		}
	}
}

// c08Generated: type-checked multi-package programs (dot-imports, also two in one file; aliases;
// two packages with one name; vendored paths; blank imports) decorated with the types-based resolver
// and restored, unedited, with a map resolver.
func c08Generated(c *fw.Ctx) {
	names := map[string]string{}
	for _, l := range gen.Libs {
		names[l.ImportPath] = l.Name
	}
	n := c.Pick(160, 4000)
	for g := 0; g < n; g++ {
		if !c.Mine(g) {
			continue
		}
		r := c.Rand(fmt.Sprintf("prog/%d", g))
		p := gen.GenProgram(r, 1+r.Intn(3))
		srcs := map[string]string{}
		ok := true
		var order []string
		for _, f := range p.Files {
			cs, good := gen.Canonicalise([]byte(f.Src))
			if !good {
				ok = false
				break
			}
			srcs[f.Name] = string(cs)
			order = append(order, f.Name)
		}
		if !ok {
			c.Count("inconclusive_generated_not_canonical", 1)
			continue
		}
		sort.Strings(order)
		files, info, _, err := p.Check(srcs, p.PkgPath)
		if err != nil {
			c.Count("inconclusive_program_rejected_by_go_types", 1)
			continue
		}
		for k, af := range files {
			src := []byte(srcs[order[k]])
			af := af
			dots := strings.Count(string(src), "\t. \"") + strings.Count(string(src), "import . \"")
			c.Observe("generated_dot_imports_per_file", fmt.Sprint(dots))
			c08Run(c, fmt.Sprintf("gen:%d/%s", g, order[k]), "gotypes+simple/generated", src, func() (*dst.File, error) {
				d := decorator.NewDecoratorWithImports(p.Fset, p.PkgPath, gotypes.New(info.Uses))
				return d.DecorateFile(af)
			}, simple.New(names), nil)
		}
	}
}

func c08ParseDir(c *fw.Ctx) {
	dirs := map[string]bool{}
	for _, p := range corpus.Sample(c.Rand("parsedir-files"), c.Pick(120, 1500)) {
		dirs[filepath.Dir(p)] = true
	}
	var dl []string
	for d := range dirs {
		dl = append(dl, d)
	}
	sort.Strings(dl)
	if len(dl) > c.Pick(30, 400) {
		dl = dl[:c.Pick(30, 400)]
	}
	for i, dir := range dl {
		if !c.Mine(i) {
			continue
		}
		ents, err := os.ReadDir(dir)
		if err != nil {
			continue
		}
		names := map[string]string{}
		srcs := map[string][]byte{}
		usable := true
		for _, e := range ents {
			if e.IsDir() || !strings.HasSuffix(e.Name(), ".go") {
				continue
			}
			src := readFile(filepath.Join(dir, e.Name()))
			if src == nil {
				usable = false
				break
			}
			nm, ok := corpus.ImportNames(src)
			if !ok {
				usable = false
				break
			}
			for k, v := range nm {
				if old, dup := names[k]; dup && old != v {
					usable = false
				}
				names[k] = v
			}
			srcs[filepath.Join(dir, e.Name())] = src
		}
		if !usable || len(srcs) == 0 {
			c.Count("parsedir_dirs_skipped", 1)
			continue
		}
		id := "parsedir:" + corpus.Rel(dir)
		c.Case(id, func() {
			c.Observe("resolver_pairs", "goast+simple/ParseDir")
			d := decorator.NewDecoratorWithImports(token.NewFileSet(), "example.com/self", goast.WithResolver(simple.New(names)))
			var pkgs map[string]*dst.Package
			var err error
			if sig, detail := fw.Try(func() { pkgs, err = d.ParseDir(dir, nil, parser.ParseComments) }); sig != "" {
				c.Violate("panic", sig, id+" [ParseDir]\n"+detail, dir)
				return
			}
			if err != nil {
				c.Count("inconclusive_decorator_resolver_refused:goast+simple/ParseDir", 1)
				return
			}
			for _, pk := range pkgs {
				for fn, df := range pk.Files {
					src := srcs[fn]
					if src == nil || !corpus.Canonical(src) || c01FailsAny(src) || len(textPredicates(src)) > 0 {
						continue // classified by the per-file workloads
					}
					var buf bytes.Buffer
					var rerr error
					if sig, detail := fw.Try(func() {
						rerr = decorator.NewRestorerWithImports("example.com/self", simple.New(names)).Fprint(&buf, df)
					}); sig != "" {
						c.Violate("panic", sig, id+" [ParseDir/restore]\n"+detail, string(src))
						continue
					}
					if rerr != nil {
						c.Violate("restore-error", "restore-error:goast+simple/ParseDir", id+": "+fn+": "+shortErr(rerr), string(src))
						continue
					}
					c.Count("files:goast+simple/ParseDir", 1)
					if !bytes.Equal(buf.Bytes(), src) {
						c.Violate("not-transparent/goast+simple/ParseDir", "not-transparent:ParseDir", id+": "+fn+": "+obs.DiffContext(buf.Bytes(), src), string(src))
					}
				}
			}
			c.Nontrivial(id)
		})
	}
}

func c08Dirs(c *fw.Ctx) []string {
	root := corpusRoot()
	cands := []string{"sort", "strings", "bytes", "bufio", "io", "os", "fmt", "errors", "flag", "path/filepath", "text/tabwriter", "encoding/json", "encoding/hex", "encoding/base64",
		"container/list", "container/heap", "unicode/utf8", "strconv", "math/rand", "math/big", "net/url", "net/textproto", "mime", "html", "html/template", "text/template",
		"go/ast", "go/token", "go/scanner", "go/parser", "go/printer", "go/format", "go/doc", "go/build", "go/types", "archive/tar", "archive/zip", "compress/gzip", "compress/flate",
		"crypto/sha256", "crypto/md5", "crypto/rand", "crypto/tls", "encoding/xml", "encoding/csv", "encoding/gob", "image", "image/png", "log", "log/slog", "regexp", "regexp/syntax",
		"net/http", "net/http/httptest", "net/mail", "os/exec", "io/fs", "io/ioutil", "testing", "testing/fstest", "time", "sync", "context", "database/sql", "expvar", "hash/crc32",
		"index/suffixarray", "reflect", "runtime/pprof", "text/scanner", "text/template/parse", "unicode", "embed", "debug/elf", "debug/dwarf"}
	n := c.Pick(22, len(cands))
	r := c.Rand("dirs")
	r.Shuffle(len(cands), func(i, j int) { cands[i], cands[j] = cands[j], cands[i] })
	var out []string
	// always: a small package that imports a package vendored GOROOT-style (go/types reports it
	// under "vendor/golang.org/x/..."), so that the vendor prefix has to be stripped
	for _, p := range []string{"crypto/internal/hpke", "crypto/internal/mlkem768"} {
		if st, err := os.Stat(filepath.Join(root, p)); err == nil && st.IsDir() {
			out = append(out, filepath.Join(root, p))
			n++
			break
		}
	}
	for _, p := range cands {
		d := filepath.Join(root, p)
		if st, err := os.Stat(d); err == nil && st.IsDir() {
			out = append(out, d)
		}
		if len(out) >= n {
			break
		}
	}
	return out
}

// dotEdits inserts block comments / line breaks before and after the dot of qualified identifiers
// and comments inside import specs.
type dotSite struct{ before, after, pkgStart, selEnd, nextLine int }

// dotEditVariants lists every single insertion (or pair) this check knows for one qualified identifier.
func dotEditVariants(s dotSite, id string) [][]gen.Edit {
	vs := [][]gen.Edit{
		{{Off: s.before, Text: " /*" + id + "*/ ", Kind: "block-before-dot"}},
		{{Off: s.after, Text: " /*" + id + "*/ ", Kind: "block-after-dot"}},
		{{Off: s.after, Text: "\n", Kind: "newline-after-dot"}},
		{{Off: s.after, Text: " //" + id + "\n", Kind: "line-comment-after-dot"}},
		{{Off: s.after, Text: "\n//" + id + "\n", Kind: "newline+own-line-comment-after-dot"}},
		{{Off: s.after, Text: "\n/*" + id + "*/ ", Kind: "newline+block-after-dot"}},
		{{Off: s.before, Text: " /*" + id + "a*/ ", Kind: "block-before-dot"}, {Off: s.after, Text: "\n/*" + id + "b*/ ", Kind: "newline+block-after-dot"}},
		{{Off: s.selEnd, Text: " /*" + id + "*/", Kind: "block-after-selector"}},
		{{Off: s.pkgStart, Text: "/*" + id + "*/ ", Kind: "block-before-qualifier"}},
	}
	if s.nextLine >= 0 {
		vs = append(vs,
			[]gen.Edit{{Off: s.nextLine, Text: "//" + id + "\n", Kind: "own-line-comment-after-selector"}},
			[]gen.Edit{{Off: s.nextLine - 1, Text: " //" + id + "a", Kind: "line-comment-after-selector"}, {Off: s.nextLine, Text: "//" + id + "b\n", Kind: "own-line-comment-after-selector"}},
			[]gen.Edit{{Off: s.nextLine - 1, Text: " //" + id, Kind: "line-comment-after-selector"}},
			[]gen.Edit{{Off: s.nextLine, Text: "\n//" + id + "\n", Kind: "blank+own-line-comment-after-selector"}},
			[]gen.Edit{{Off: s.nextLine, Text: "/*" + id + "\n" + id + "*/\n", Kind: "own-line-multiline-block-after-selector"}},
		)
	}
	return vs
}

// dotSites finds the qualified identifiers (package name, dot, identifier) of src.
func dotSites(src []byte, names map[string]string) []dotSite {
	ds, _ := dotSitesAndImports(src, names)
	return ds
}

func dotSitesAndImports(src []byte, names map[string]string) ([]dotSite, []int) {
	toks, errs := obs.Scan(src)
	if errs > 0 {
		return nil, nil
	}
	pkgNames := map[string]bool{}
	for _, v := range names {
		pkgNames[v] = true
	}
	type site = dotSite
	var sites []site
	var importToks []int
	inImport := false
	depth := 0
	for i, t := range toks {
		if t.Tok == token.IMPORT {
			inImport = true
			depth = 0
		}
		if inImport {
			if t.Tok == token.LPAREN {
				depth++
			}
			if t.Tok == token.RPAREN {
				inImport = false
			}
			if t.Tok == token.STRING {
				importToks = append(importToks, t.Off)
				if depth == 0 {
					inImport = false
				}
			}
		}
		if t.Tok == token.PERIOD && i > 0 && i+1 < len(toks) && toks[i-1].Tok == token.IDENT && pkgNames[toks[i-1].Lit] && toks[i+1].Tok == token.IDENT {
			st := site{before: t.Off, after: t.Off + 1, pkgStart: toks[i-1].Off, selEnd: toks[i+1].Off + len(toks[i+1].Lit), nextLine: -1}
			// the selector ends its line (possibly followed by a comma): the next line can take an
			// own-line comment that belongs to the selector
			if e := bytes.IndexByte(src[st.selEnd:], '\n'); e >= 0 {
				if rest := strings.TrimSpace(string(src[st.selEnd : st.selEnd+e])); rest == "" || rest == "," {
					st.nextLine = st.selEnd + e + 1
				}
			}
			sites = append(sites, st)
		}
	}
	return sites, importToks
}

func dotEdits(r interface{ Intn(int) int }, src []byte, names map[string]string, n int) []gen.Edit {
	sites, importToks := dotSitesAndImports(src, names)
	var edits []gen.Edit
	for k := 0; k < n; k++ {
		id := fmt.Sprintf("#d%d", k)
		switch x := r.Intn(9); {
		case x >= 7 && len(sites) > 0:
			// around the whole qualified identifier: these become Start / End decorations of the
			// collapsed identifier
			s := sites[r.Intn(len(sites))]
			switch r.Intn(5) {
			case 0:
				edits = append(edits, gen.Edit{Off: s.selEnd, Text: " /*" + id + "*/", Kind: "block-after-selector"})
			case 1:
				edits = append(edits, gen.Edit{Off: s.pkgStart, Text: "/*" + id + "*/ ", Kind: "block-before-qualifier"})
			case 2:
				if s.nextLine >= 0 {
					edits = append(edits, gen.Edit{Off: s.nextLine, Text: "//" + id + "\n", Kind: "own-line-comment-after-selector"})
				}
			case 3:
				if s.nextLine >= 0 {
					edits = append(edits, gen.Edit{Off: s.nextLine - 1, Text: " //" + id + "a", Kind: "line-comment-after-selector"}, gen.Edit{Off: s.nextLine, Text: "//" + id + "b\n", Kind: "own-line-comment-after-selector"})
				}
			case 4:
				if s.nextLine >= 0 {
					edits = append(edits, gen.Edit{Off: s.nextLine - 1, Text: " //" + id, Kind: "line-comment-after-selector"})
				}
			}
		case x < 2 && len(sites) > 0:
			s := sites[r.Intn(len(sites))]
			edits = append(edits, gen.Edit{Off: s.before, Text: " /*" + id + "*/ ", Kind: "block-before-dot"})
		case x < 4 && len(sites) > 0:
			s := sites[r.Intn(len(sites))]
			edits = append(edits, gen.Edit{Off: s.after, Text: " /*" + id + "*/ ", Kind: "block-after-dot"})
		case x < 5 && len(sites) > 0:
			s := sites[r.Intn(len(sites))]
			edits = append(edits, gen.Edit{Off: s.after, Text: "\n", Kind: "newline-after-dot"})
		case x < 6 && len(sites) > 0:
			s := sites[r.Intn(len(sites))]
			switch r.Intn(5) {
			case 0:
				edits = append(edits, gen.Edit{Off: s.after, Text: " //" + id + "\n", Kind: "line-comment-after-dot"})
			case 1:
				// a line break after the dot and a comment on its own line before the selector
				edits = append(edits, gen.Edit{Off: s.after, Text: "\n//" + id + "\n", Kind: "newline+own-line-comment-after-dot"})
			case 2:
				edits = append(edits, gen.Edit{Off: s.after, Text: "\n/*" + id + "*/ ", Kind: "newline+block-after-dot"})
			case 3:
				edits = append(edits, gen.Edit{Off: s.after, Text: " //" + id + "a\n\n//" + id + "b\n", Kind: "line-comment+blank+comment-after-dot"})
			case 4:
				edits = append(edits, gen.Edit{Off: s.before, Text: " /*" + id + "a*/ ", Kind: "block-before-dot"}, gen.Edit{Off: s.after, Text: "\n/*" + id + "b*/ ", Kind: "newline+block-after-dot"})
			}
		case len(importToks) > 0:
			o := importToks[r.Intn(len(importToks))]
			edits = append(edits, gen.Edit{Off: o, Text: "/*" + id + "*/ ", Kind: "block-before-import-path"})
		}
	}
	// at most one edit per offset
	seen := map[int]bool{}
	var out []gen.Edit
	for _, e := range edits {
		if !seen[e.Off] {
			seen[e.Off] = true
			out = append(out, e)
		}
	}
	return out
}

// c08ContextFiles: qualified identifiers in the syntactic contexts where the collapsed identifier's
// own decorations matter (list elements, last element before a closing delimiter, operands, types).
func c08ContextFiles() map[string]string {
	return map[string]string{
		"lists": `package p

import (
	"fmt"
	"os"
	"strings"
)

func f(g func(...interface{})) {
	fmt.Println(
		os.Args,
		strings.ToUpper,
	)
	_ = []interface{}{
		os.Stdin,
		fmt.Sprint,
	}
	g(os.Stdout,
		os.Stderr)
	x := map[string]interface{}{
		"a": os.Getenv,
		"b": strings.TrimSpace,
	}
	_ = x
	switch g {
	case nil:
		fmt.Print()
		os.Exit(1)
	}
	return
}
`,
		"types": `package p

import (
	"fmt"
	"os"
	"strings"
	"sync"
)

type T struct {
	A  os.File
	mu sync.Mutex
	strings.Builder
	f func(os.Signal) fmt.Stringer
}

type I interface {
	fmt.Stringer
	M(x os.FileMode) strings.Reader
}

var (
	v sync.Once
	w = os.Args
)

func (t *T) m(a os.FileInfo, b ...fmt.Formatter) (r strings.Replacer, err error) {
	var once sync.Once
	once.Do(func() { _ = os.Args[0] + strings.Repeat("x", len(os.Args)) })
	if v, ok := interface{}(t).(fmt.Stringer); ok {
		_ = v
	}
	return
}
`,
	}
}

// importZoo: small canonical files with unusual import sections.
func importZoo() map[string]string {
	return map[string]string{
		"two-blank":              "package p\n\nimport (\n\t\"fmt\"\n\t_ \"image/jpeg\"\n\t_ \"image/png\"\n)\n\nvar _ = fmt.Sprint\n",
		"three-blank-two-blocks": "package p\n\nimport (\n\t_ \"embed\"\n\t_ \"image/png\"\n)\n\nimport _ \"net/http/pprof\"\n\nvar x = 1\n",
		"aliases":                "package p\n\nimport (\n\tcrand \"crypto/rand\"\n\tf \"fmt\"\n\t\"math/rand\"\n)\n\nvar _ = f.Sprint(rand.Int(), crand.Reader)\n",
		"own-name-alias":         "package p\n\nimport fmt \"fmt\"\n\nvar _ = fmt.Sprint\n",
		"groups-and-comments":    "package p\n\nimport (\n\t\"fmt\" // std\n\t\"os\"\n\n\t// third party\n\t\"gopkg.in/yaml.v2\"\n\txlog \"x.com/y/log\"\n)\n\nvar _ = fmt.Sprint(os.Args, yaml.Marshal, xlog.Print)\n",
		"cgo":                    "package p\n\n/*\n#include <stdio.h>\n*/\nimport \"C\"\n\nimport (\n\t\"fmt\"\n\t\"unsafe\"\n)\n\nvar _ = fmt.Sprint(C.int(1), unsafe.Sizeof(0))\n",
		"single-lines":           "package p\n\nimport \"fmt\"\nimport \"os\"\n\nvar _ = fmt.Sprint(os.Args)\n",
		"blank-and-used":         "package p\n\nimport (\n\t\"fmt\"\n\t_ \"image/png\"\n\t\"strings\"\n)\n\nfunc f() string {\n\treturn strings.ToUpper(fmt.\n\t\tSprint(1))\n}\n",
	}
}

// c08GenImports builds a canonical file with a random import section in which every named import
// is used once.
func c08GenImports(r interface{ Intn(int) int }) (string, map[string]string) {
	pool := []struct{ path, name string }{
		{"bytes", "bytes"}, {"fmt", "fmt"}, {"os", "os"}, {"strings", "strings"}, {"math/rand", "rand"}, {"net/http", "http"},
		{"x.com/a/log", "log"}, {"x.com/b/yaml.v2", "yaml"}, {"image/png", "png"}, {"embed", "embed"},
	}
	perm := make([]int, len(pool))
	for i := range perm {
		perm[i] = i
	}
	for i := len(perm) - 1; i > 0; i-- {
		j := r.Intn(i + 1)
		perm[i], perm[j] = perm[j], perm[i]
	}
	names := map[string]string{}
	var sb strings.Builder
	sb.WriteString("package p\n\n")
	var uses []string
	k := 0
	nblocks := 1 + r.Intn(3)
	for b := 0; b < nblocks && k < len(perm); b++ {
		nspec := 1 + r.Intn(3)
		var lines []string
		var paths []string
		for s := 0; s < nspec && k < len(perm); s++ {
			p := pool[perm[k]]
			k++
			names[p.path] = p.name
			paths = append(paths, p.path)
		}
		sort.Strings(paths) // gofmt sorts the specs of a block
		for _, path := range paths {
			name := names[path]
			line := ""
			switch r.Intn(6) {
			case 0:
				line = "_ \"" + path + "\""
			case 1:
				line = "al" + name + " \"" + path + "\""
				uses = append(uses, "al"+name+".X")
			case 2:
				line = name + " \"" + path + "\"" // aliased with its own name
				uses = append(uses, name+".X")
			default:
				line = "\"" + path + "\""
				uses = append(uses, name+".X")
			}
			if r.Intn(5) == 0 {
				line += " // c"
			}
			lines = append(lines, line)
		}
		paren := len(lines) > 1 || r.Intn(2) == 0
		if r.Intn(6) == 0 {
			sb.WriteString("// block comment\n")
		}
		if paren {
			sb.WriteString("import (\n")
			for _, l := range lines {
				sb.WriteString("\t" + l + "\n")
			}
			sb.WriteString(")\n\n")
		} else {
			sb.WriteString("import " + lines[0] + "\n\n")
		}
	}
	sb.WriteString("func f() {\n")
	for _, u := range uses {
		sb.WriteString("\t_ = " + u + "\n")
	}
	sb.WriteString("}\n")
	out := sb.String()
	if g, err := format.Source([]byte(out)); err == nil {
		out = string(g)
	}
	return out, names
}

// c08AllNames resolves standard-library packages from their package clauses and the handful of
// other paths the synthetic inputs use from a fixed table.
type c08AllNames struct{}

func (c08AllNames) ResolvePackage(path string) (string, error) {
	if n, ok := map[string]string{"x.com/y/log": "log", "gopkg.in/yaml.v2": "yaml", "unsafe": "unsafe", "C": "C"}[path]; ok {
		return n, nil
	}
	if n := corpus.StdPkgName(path); n != "" {
		return n, nil
	}
	return "", resolver.ErrPackageNotFound
}
