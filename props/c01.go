package props

import (
	"bytes"
	"go/format"
	"fmt"
	"go/ast"
	"go/parser"
	"go/token"
	"os"
	"path/filepath"
	"sort"
	"strings"

	"github.com/dave/dst"
	"github.com/dave/dst/decorator"
	"github.com/dave/dst/decorator/resolver/goast"
	"github.com/dave/dst/decorator/resolver/simple"

	"verif/internal/corpus"
	"verif/internal/fw"
	"verif/internal/gen"
	"verif/internal/obs"
)

func init() {
	fw.Register(&fw.Check{
		ID:    "C01",
		Level: "exploration",
		Rule: "cases: (a) every gofmt-canonical corpus file (GOROOT/src + /repo; quick: directory-stratified seeded sample) through 4 per-file entry points " +
			"(Parse+Fprint, explicit Decorator/Restorer on caller file sets with non-zero bases, ParseFile+Restorer.Fprint, Decorator.Parse+FileRestorer.Fprint); " +
			"(b) corpus directories through ParseDir, every file of every package printed; (c) corpus files with seeded comment/blank-line insertions at scanner token " +
			"boundaries, canonicalised with gofmt (only gofmt-idempotent inputs kept). Oracle: byte equality with the input. distinct_nontrivial = distinct input content " +
			"hashes that contain at least one comment and one blank line.",
		Floor: 200,
		Run:   runC01,
		Assumptions: []string{
			"go/format of the toolchain (go1.23.5) defines gofmt-canonical; inputs on which gofmt is not idempotent are counted inconclusive",
			"monitoring covers only the inputs generated; the corpus is the toolchain's own source tree",
		},
		Required: map[string]int{"node_types": 50, "entry_points": 5},
	})
}

// c01Entries runs the per-file entry points; returns name→output (or error).
func c01Entries(ss *sharedSets, name string, src []byte) map[string]struct {
	out []byte
	err error
} {
	res := map[string]struct {
		out []byte
		err error
	}{}
	add := func(k string, o []byte, e error) {
		res[k] = struct {
			out []byte
			err error
		}{o, e}
	}
	o, e := rtParsePrint(src)
	add("Parse+Fprint", o, e)
	o, e = ss.rtExplicit(name, src)
	add("explicit-shared-fset", o, e)
	o, e = rtParseFile(name, src)
	add("ParseFile+Restorer.Fprint", o, e)
	o, e = rtDecoratorParse(src)
	add("Decorator.Parse+FileRestorer.Fprint", o, e)
	// an explicit decorator and restorer with import management (only for the synthetic inputs,
	// whose imports are standard-library packages without dot-imports or duplicates)
	if strings.HasSuffix(name, "[imports]") && !strings.HasPrefix(name, "snippet-import-names") { // that snippet has imports that are unused as far as a syntax-only resolver can see: import management prunes them
		if names, ok := corpus.ImportNames(src); ok && !bytes.Contains(src, []byte("\t. \"")) && !bytes.Contains(src, []byte("import . ")) && !dupImport(src) {
			d := decorator.NewDecoratorWithImports(token.NewFileSet(), "example.com/self", goast.WithResolver(simple.New(names)))
			f, err := d.Parse(src)
			if err == nil {
				var buf bytes.Buffer
				err = decorator.NewRestorerWithImports("example.com/self", simple.New(names)).Fprint(&buf, f)
				add("NewDecoratorWithImports+NewRestorerWithImports", buf.Bytes(), err)
			}
		}
	}
	return res
}

func c01FailsAny(src []byte) bool {
	o, e := rtParsePrint(src)
	return e != nil || !bytes.Equal(o, src)
}

// c01Signature reduces a failing canonical input and classifies it.
func c01Signature(src []byte) (string, []byte) {
	red := gen.ReduceDecls(src, corpus.Canonical, func(b []byte) bool {
		sig, _ := fw.Try(func() {})
		_ = sig
		var fails bool
		if s, _ := fw.Try(func() { fails = c01FailsAny(b) }); s != "" {
			return true
		}
		return fails
	}, 400)
	// causal layout families (established by deleting the comment) take precedence over the
	// merely textual predicates
	preds := c01LayoutPredicates(red)
	if len(preds) == 0 {
		preds = textPredicates(red)
	}
	sort.Strings(preds)
	return sigOf("roundtrip", preds), red
}

// layoutCandidate is a layout situation found in a witness together with the lines that make it up.
type layoutCandidate struct {
	name     string
	from, to int // line range (inclusive) of the comment that constitutes the situation
	col      int // > 0: only the text from this column on of line "from" is the comment
}

// commentOnlyLines marks the lines that hold nothing but comment text.
func commentOnlyLines(lines []string) []bool {
	out := make([]bool, len(lines))
	inBlock := false
	for i, l := range lines {
		t := strings.TrimSpace(l)
		switch {
		case inBlock:
			out[i] = true
			if strings.Contains(t, "*/") {
				inBlock = false
				if !strings.HasSuffix(t, "*/") {
					out[i] = false
				}
			}
		case strings.HasPrefix(t, "//"):
			out[i] = true
		case strings.HasPrefix(t, "/*"):
			if k := strings.Index(t, "*/"); k < 0 {
				inBlock = true
				out[i] = true
			} else if k == len(t)-2 {
				out[i] = true
			}
		}
	}
	return out
}

func indentOf(l string) int { return len(l) - len(strings.TrimLeft(l, "\t")) }

// c01LayoutCandidates finds the go/printer layout situations that were root-caused on the
// unchanged tree (DESIGN.md section 6): each is a comment whose printed indentation depends on its
// original column, which dst does not record.
func c01LayoutCandidates(src []byte) []layoutCandidate {
	var cs []layoutCandidate
	lines := strings.Split(string(src), "\n")
	co := commentOnlyLines(lines)
	for i := 0; i < len(lines); i++ {
		if !co[i] || (i > 0 && co[i-1]) {
			continue
		}
		j := i
		for j < len(lines) && co[j] {
			j++
		}
		if j >= len(lines) {
			break
		}
		next := strings.TrimLeft(lines[j], "\t")
		ci, ni := indentOf(lines[i]), indentOf(lines[j])
		// an own-line comment written at a shallower indentation than the continuation line above
		// it (the last line of a multi-line expression or type, e.g. a selector broken after the
		// dot), followed by a blank line: gofmt keeps it where it is, the restored positions make
		// go/printer print it one level deeper (still inside the construct's pending indentation)
		if strings.TrimSpace(lines[j]) == "" {
			p := i - 1
			for p >= 0 && strings.TrimSpace(lines[p]) == "" {
				p--
			}
			if p >= 0 && p == i-1 && !co[p] && indentOf(lines[p]) > ci {
				cs = append(cs, layoutCandidate{"comment-below-continuation-line-at-shallower-indent", i, j - 1, 0})
			}
			continue
		}
		switch {
		case strings.HasPrefix(next, ")") && ci <= ni:
			// an own-line comment directly before a closing ")" that gofmt leaves unindented
			cs = append(cs, layoutCandidate{"comment-before-rparen-unindented", i, j - 1, 0})
		case (strings.HasPrefix(next, "case ") || strings.HasPrefix(next, "default:")) && ni < ci:
			// a comment at body indentation directly before the next case / default clause, where
			// the clause body ends in a continuation line of a multi-line statement (indented
			// deeper than the comment): dst's hanging-indent rule only covers clause bodies whose
			// last line is at body indentation
			p := i - 1
			for p >= 0 && strings.TrimSpace(lines[p]) == "" {
				p--
			}
			if p >= 0 && indentOf(lines[p]) > ci {
				cs = append(cs, layoutCandidate{"hanging-comment-before-case-after-multiline-statement", i, j - 1, 0})
			}
		case ci > ni && !strings.HasPrefix(next, "}") && !strings.HasPrefix(next, ")") && !strings.HasPrefix(next, "]"):
			// an own-line comment that gofmt keeps at the deeper indentation of the continuation
			// line above it (last line of a multi-line expression or type), followed by a line at
			// the shallower indentation of the next sibling: go/printer applies the pending
			// unindent before a comment only when the comment's column equals the next token's,
			// and dst's restored positions put both in the same column
			p := i - 1
			for p >= 0 && strings.TrimSpace(lines[p]) == "" {
				p--
			}
			if p >= 0 && indentOf(lines[p]) >= ci && !co[p] {
				cs = append(cs, layoutCandidate{"comment-at-continuation-indent-before-shallower-sibling", i, j - 1, 0})
			}
		case strings.HasPrefix(strings.TrimSpace(lines[i]), "//line ") && ci == 0 && ni > 0:
			cs = append(cs, layoutCandidate{"line-directive-col1-in-indented-code", i, j - 1, 0})
		}
	}
	// a trailing comment on the line that closes a multi-line raw string literal: inside an
	// aligned block (specs, fields, key-value elements) gofmt separates it with one blank, the
	// restored positions make go/printer's tabwriter pad it with two
	open := false
	for i, l := range lines {
		n := strings.Count(l, "`")
		wasOpen := open
		if n%2 == 1 {
			open = !open
		}
		if wasOpen && !open {
			k := strings.LastIndex(l, "`")
			rest := l[k+1:]
			if j := strings.Index(rest, "//"); j >= 0 {
				cs = append(cs, layoutCandidate{"trailing-comment-after-multiline-raw-string", i, i, k + 1 + j})
			} else if j := strings.Index(rest, "/*"); j >= 0 {
				cs = append(cs, layoutCandidate{"trailing-comment-after-multiline-raw-string", i, i, k + 1 + j})
			}
		}
	}
	return cs
}

// c01LayoutPredicates keeps, of the candidates, those that are causal: deleting the comment makes
// the (still canonical) witness round-trip. If none is causal the candidates are not used.
func c01LayoutPredicates(src []byte) []string {
	cands := c01LayoutCandidates(src)
	lines := strings.Split(string(src), "\n")
	byName := map[string][]layoutCandidate{}
	var names []string
	for _, c := range cands {
		if _, ok := byName[c.name]; !ok {
			names = append(names, c.name)
		}
		byName[c.name] = append(byName[c.name], c)
	}
	sort.Strings(names)
	cures := func(drop []layoutCandidate) bool {
		del := map[int]bool{}
		cut := map[int]int{}
		for _, c := range drop {
			if c.col > 0 {
				cut[c.from] = c.col
				continue
			}
			for k := c.from; k <= c.to; k++ {
				del[k] = true
			}
		}
		var kept []string
		for k, l := range lines {
			if col, ok := cut[k]; ok && col <= len(l) {
				l = strings.TrimRight(l[:col], " \t")
			}
			if !del[k] {
				kept = append(kept, l)
			}
		}
		trial := []byte(strings.Join(kept, "\n"))
		if g, err := format.Source(trial); err == nil {
			trial = g // deleting a comment can leave a blank line gofmt would drop
		}
		if !corpus.Canonical(trial) {
			return false
		}
		fails := true
		fw.Try(func() { fails = c01FailsAny(trial) })
		return !fails
	}
	var ps []string
	// a single family explains the failure if deleting all of its comments cures it
	for _, n := range names {
		if cures(byName[n]) {
			ps = append(ps, n)
		}
	}
	if len(ps) == 0 && len(names) > 1 && cures(cands) {
		// only all families together explain it
		ps = append(ps, names...)
	}
	return ps
}

// c01WithLineDirective inserts "//line zz_generated.y:1000" on a line of its own (surrounded by
// blank lines) directly after the package clause.
func c01WithLineDirective(src []byte) []byte {
	fset := token.NewFileSet()
	f, err := parser.ParseFile(fset, "", src, parser.PackageClauseOnly)
	if err != nil {
		return nil
	}
	off := fset.Position(f.Name.End()).Offset
	nl := bytes.IndexByte(src[off:], '\n')
	if nl < 0 {
		return nil
	}
	at := off + nl + 1
	out := append([]byte{}, src[:at]...)
	out = append(out, "\n//line zz_generated.y:1000\n"...)
	out = append(out, src[at:]...)
	return out
}

// c01RestoreAllThenPrint restores the canonical files of one decorated package with a single
// FileRestorer and prints them after the last one was restored; each must equal its source.
func c01RestoreAllThenPrint(c *fw.Ctx, id string, pkg *dst.Package, fnames []string) {
	type one struct {
		name string
		src  []byte
		af   *ast.File
	}
	var rs []one
	fr := decorator.NewRestorer().FileRestorer()
	for _, fn := range fnames {
		src := readFile(fn)
		if src == nil || !corpus.Canonical(src) || c01FailsAny(src) {
			continue
		}
		if len(rs) >= 8 {
			break
		}
		fr.Name = filepath.Base(fn)
		var af *ast.File
		var err error
		if s, d := fw.Try(func() { af, err = fr.RestoreFile(pkg.Files[fn]) }); s != "" {
			c.Violate("restore-all-panic", s, id+": "+d, fn)
			return
		}
		if err != nil {
			return
		}
		rs = append(rs, one{fn, src, af})
	}
	if len(rs) < 2 {
		return
	}
	c.Observe("entry_points", "FileRestorer.RestoreFile(all)+format.Node(later)")
	for k, r := range rs {
		c.Count("files:restore-all-then-print", 1)
		var buf bytes.Buffer
		var err error
		if s, d := fw.Try(func() { err = format.Node(&buf, fr.Fset, r.af) }); s != "" {
			c.Violate("restore-all-print-panic", s, id+": "+d, r.name)
			return
		}
		if err == nil && bytes.Equal(buf.Bytes(), r.src) {
			c.Count("roundtrips_ok", 1)
			continue
		}
		pos := "last"
		if k < len(rs)-1 {
			pos = "earlier"
		}
		detail := fmt.Sprintf("%s: file %s (#%d of %d restored by one FileRestorer, printed after all were restored): ", id, r.name, k, len(rs))
		if err != nil {
			detail += shortErr(err)
		} else {
			detail += obs.DiffContext(buf.Bytes(), r.src)
		}
		c.Violate("roundtrip/restore-all-then-print", "roundtrip-restore-all-then-print:"+pos+"-file", detail, r.name)
		return
	}
}

func runC01(c *fw.Ctx) {
	types := map[string]bool{}
	points := map[string]bool{}
	ss := newSharedSets()

	checkFile := func(id, name string, src []byte, workload string) {
		c.Case(id, func() {
			c.Count("files:"+workload, 1)
			c.Count("bytes", int64(len(src)))
			if hasCommentAndBlank(src) {
				c.Nontrivial(string(src))
			}
			if df, err := decorator.Parse(src); err == nil {
				observeTree(df, types, points)
			}
			res := c01Entries(ss, name, src)
			var names []string
			for k := range res {
				names = append(names, k)
			}
			sort.Strings(names)
			sigDone := false
			for _, k := range names {
				c.Observe("entry_points", k)
				r := res[k]
				if r.err == nil && bytes.Equal(r.out, src) {
					c.Count("roundtrips_ok", 1)
					continue
				}
				if sigDone {
					c.Count("roundtrips_failed_more_entries", 1)
					continue
				}
				sigDone = true
				sig, red := c01Signature(src)
				detail := ""
				if r.err != nil {
					detail = "entry " + k + " error: " + shortErr(r.err)
				} else {
					detail = "entry " + k + ": " + obs.DiffContext(r.out, src)
				}
				if len(red) < 3000 {
					detail += "\n--- reduced witness\n" + string(red)
				}
				c.Violate("roundtrip/"+k, sig, detail, string(src))
			}
			c.Sample(map[string]interface{}{"case": id, "bytes": len(src), "entries": names})
		})
	}

	// (a) canonical corpus
	r := c.Rand("corpus")
	files := corpus.Sample(r, c.Pick(700, 0))
	for i, p := range files {
		if !c.Mine(i) {
			continue
		}
		src := readFile(p)
		if src == nil || !corpus.Canonical(src) {
			c.Count("skipped_noncanonical", 1)
			continue
		}
		checkFile("file:"+corpus.Rel(p), filepath.Base(p), src, "corpus")
		// the same file as generated code: a //line directive after the package clause shifts every
		// reported line number of the rest of the file (the file itself stays gofmt-canonical)
		if i%3 == 0 {
			if ld := c01WithLineDirective(src); ld != nil && corpus.Canonical(ld) {
				checkFile("linedirective:"+corpus.Rel(p), filepath.Base(p), ld, "corpus+line-directive")
			}
		}
	}

	// (a2) hand-written layout zoo
	zoo := layoutZoo()
	var znames []string
	for k := range zoo {
		znames = append(znames, k)
	}
	sort.Strings(znames)
	for i, k := range znames {
		if !c.Mine(i) {
			continue
		}
		src := []byte(zoo[k])
		if !corpus.Canonical(src) {
			c.Count("zoo_entries_not_canonical", 1)
			continue
		}
		checkFile("zoo:"+k, k+".go[imports]", src, "zoo")
		if ld := c01WithLineDirective(src); ld != nil && corpus.Canonical(ld) {
			checkFile("linedirective:zoo:"+k, k+".go", ld, "zoo+line-directive")
		}
	}

	// (a3) comment ladders: one to four own-line comments, each at the indentation of the statement
	// before or of the token after, with or without empty lines between them, directly after a
	// construct whose last line is indented deeper than its first (clause bodies, continuation
	// lines); canonicalised with gofmt, duplicates dropped
	li := 0
	seenLadder := map[string]bool{}
	for _, shape := range []struct {
		name, before, after string
		base                int
	}{
		{"case-body", "package p\n\nfunc f(x int) {\n\tswitch x {\n\tcase 1:\n\t\ta()\n", "\tcase 2:\n\t\tb()\n\t}\n}\n", 1},
		{"comm-body", "package p\n\nfunc f(c chan int) {\n\tselect {\n\tcase <-c:\n\t\ta()\n", "\tdefault:\n\t}\n}\n", 1},
		{"continuation", "package p\n\nfunc f() {\n\tg(1,\n\t\t2)\n", "\th()\n}\n", 1},
		{"last-in-block", "package p\n\nfunc f() {\n\tif x {\n\t\tg(1,\n\t\t\t2)\n", "\t}\n}\n", 2},
		{"decl-continuation", "package p\n\nvar x = g(1,\n\t2)\n", "var y int\n", 0},
		{"block-end", "package p\n\nfunc f() {\n\tif x {\n\t\ta()\n\t}\n", "\tb()\n}\n", 1},
	} {
		for n := 1; n <= 4; n++ {
			for im := 0; im < 1<<uint(n); im++ {
				for bm := 0; bm < 1<<uint(n-1); bm++ {
					i := li
					li++
					if !c.Mine(i) {
						continue
					}
					var sb strings.Builder
					sb.WriteString(shape.before)
					for k := 0; k < n; k++ {
						if k > 0 && bm&(1<<uint(k-1)) != 0 {
							sb.WriteString("\n")
						}
						sb.WriteString(strings.Repeat("\t", shape.base+(im>>uint(k))&1) + fmt.Sprintf("// c%d\n", k+1))
					}
					sb.WriteString(shape.after)
					src, ok := gen.Canonicalise([]byte(sb.String()))
					if !ok || !corpus.Parses(src) {
						c.Count("inconclusive_gofmt_not_idempotent", 1)
						continue
					}
					if seenLadder[string(src)] {
						continue
					}
					seenLadder[string(src)] = true
					checkFile(fmt.Sprintf("ladder:%s/%d/%d/%d", shape.name, n, im, bm), "ladder.go[imports]", src, "comment-ladder")
				}
			}
		}
	}

	// (a4) one import-managing FileRestorer prints several unmodified files in turn (files that name
	// the same imports differently): each comes out byte for byte, in either order
	if c.Shard == 0 {
		names := map[string]string{"strings": "strings", "os": "os", "fmt": "fmt", "io": "io"}
		srcs := []string{
			"package p\n\nimport (\n\t\"os\"\n\tstr \"strings\"\n)\n\nfunc a() string { return str.ToUpper(os.Args[0]) }\n",
			"package p\n\nimport (\n\tsys \"os\"\n\t\"strings\"\n)\n\nfunc b() string { return strings.ToLower(sys.Args[0]) }\n",
			"package p\n\nimport \"fmt\"\n\n// c prints.\nfunc c() { fmt.Println() }\n",
			"package p\n\nimport (\n\tf \"fmt\"\n\t\"io\"\n\tos2 \"os\"\n)\n\nvar w io.Writer = os2.Stdout\n\nfunc d() { f.Fprintln(w) }\n",
		}
		for perm := 0; perm < 6; perm++ {
			id := fmt.Sprintf("file-restorer-reused-with-imports:%d", perm)
			c.Case(id, func() {
				order := [][]int{{0, 1, 2, 3}, {1, 0, 3, 2}, {3, 2, 1, 0}, {2, 3, 0, 1}, {0, 3, 1, 2}, {1, 2, 3, 0}}[perm]
				fr := decorator.NewRestorerWithImports("example.com/self", simple.New(names)).FileRestorer()
				c.Observe("entry_points", "one FileRestorer with imports, several files")
				for _, k := range order {
					src := []byte(srcs[k])
					if !corpus.Canonical(src) {
						return
					}
					f, err := decorator.NewDecoratorWithImports(token.NewFileSet(), "example.com/self", goast.WithResolver(simple.New(names))).Parse(src)
					if err != nil {
						return
					}
					var buf bytes.Buffer
					if sig, d := fw.Try(func() { err = fr.Fprint(&buf, f) }); sig != "" {
						c.Violate("reused-file-restorer-panic", sig, id+": "+d, string(src))
						return
					}
					c.Count("files:file-restorer-reused-with-imports", 1)
					if err != nil || !bytes.Equal(buf.Bytes(), src) {
						detail := id + fmt.Sprintf(" (order %v, file %d): ", order, k)
						if err != nil {
							detail += shortErr(err)
						} else {
							detail += obs.DiffContext(buf.Bytes(), src)
						}
						c.Violate("roundtrip/file-restorer-reused-with-imports", "roundtrip-file-restorer-reused-with-imports", detail, string(src))
						return
					}
					c.Count("roundtrips_ok", 1)
				}
				c.Nontrivial(id)
			})
		}
	}

	// (c) comment mutations
	mfiles := corpus.Sample(c.Rand("mut-files"), c.Pick(250, 3000))
	kindsets := [][]string{{"block"}, {"eol", "own"}, {"blank", "own", "ownblk"}, {"block", "eol", "own", "blank", "ownblk", "mlblk"}, {"hang"}, {"hang", "blank", "eol"}}
	for _, k := range znames {
		mfiles = append(mfiles, "zoo:"+k)
	}
	for i, p := range mfiles {
		if !c.Mine(i) {
			continue
		}
		var src []byte
		nrec := c.Pick(2, 3)
		if strings.HasPrefix(p, "zoo:") {
			src = []byte(zoo[strings.TrimPrefix(p, "zoo:")])
			nrec = c.Pick(8, 40)
		} else {
			src = readFile(p)
		}
		if src == nil || len(src) > 60000 || !corpus.Canonical(src) {
			continue
		}
		for ks, kinds := range kindsets {
			for rec := 0; rec < nrec; rec++ {
				mr := c.Rand(fmt.Sprintf("mut/%s/%d/%d", p, ks, rec))
				edits := gen.CommentEdits(mr, src, 1+mr.Intn(12), kinds, 1000)
				if len(edits) == 0 {
					continue
				}
				mat := func(es []gen.Edit) ([]byte, bool) { return gen.Canonicalise(gen.ApplyEdits(src, es)) }
				msrc, ok := mat(edits)
				if !ok || !corpus.Parses(msrc) {
					c.Count("inconclusive_gofmt_not_idempotent", 1)
					continue
				}
				id := fmt.Sprintf("mut:%s/%d/%d", corpus.Rel(p), ks, rec)
				for _, e := range edits {
					c.Count("inserted:"+e.Kind, 1)
				}
				c.Case(id, func() {
					c.Count("files:mutated", 1)
					c.Nontrivial(string(msrc))
					var out []byte
					var err error
					entry := "Parse+Fprint"
					if rec%2 == 1 {
						entry = "explicit-shared-fset"
						out, err = ss.rtExplicit("m.go", msrc)
					} else {
						out, err = rtParsePrint(msrc)
					}
					if err == nil && bytes.Equal(out, msrc) {
						c.Count("roundtrips_ok", 1)
						return
					}
					// reduce: first the inserted edits, then declarations
					red := gen.ReduceEdits(edits, mat, func(b []byte) bool {
						var fails bool
						if s, _ := fw.Try(func() { fails = c01FailsAny(b) }); s != "" {
							return true
						}
						return fails
					})
					rsrc, _ := mat(red)
					sig, rr := c01Signature(rsrc)
					var kinds []string
					for _, e := range red {
						kinds = append(kinds, e.Kind)
					}
					detail := fmt.Sprintf("entry %s; surviving edits %v\n", entry, kinds)
					if err != nil {
						detail += "error: " + shortErr(err)
					} else {
						detail += obs.DiffContext(out, msrc)
					}
					if len(rr) < 3000 {
						detail += "\n--- reduced witness\n" + string(rr)
					}
					c.Violate("roundtrip-mutated/"+entry, sig, detail, string(msrc))
				})
			}
		}
	}

	// (b) ParseDir over corpus directories
	dirs := map[string]bool{}
	for _, p := range corpus.Files() {
		dirs[filepath.Dir(p)] = true
	}
	var dlist []string
	for d := range dirs {
		dlist = append(dlist, d)
	}
	sort.Strings(dlist)
	dr := c.Rand("dirs")
	dr.Shuffle(len(dlist), func(i, j int) { dlist[i], dlist[j] = dlist[j], dlist[i] })
	if n := c.Pick(60, 0); n > 0 && n < len(dlist) {
		dlist = dlist[:n]
	}
	for i, d := range dlist {
		if !c.Mine(i) {
			continue
		}
		c.Case("dir:"+corpus.Rel(d), func() {
			fset := token.NewFileSet()
			pkgs, err := decorator.ParseDir(fset, d, func(fi os.FileInfo) bool { return fi.Size() < 600000 }, 0)
			if err != nil {
				c.Count("parsedir_parse_error_dirs", 1)
				return
			}
			c.Observe("entry_points", "ParseDir")
			var pnames []string
			for k := range pkgs {
				pnames = append(pnames, k)
			}
			sort.Strings(pnames)
			for _, pn := range pnames {
				pkg := pkgs[pn]
				types["Package"] = true
				var fnames []string
				for k := range pkg.Files {
					fnames = append(fnames, k)
				}
				sort.Strings(fnames)
				if len(fnames) > 1 {
					c.Count("parsedir_multifile_packages", 1)
				}
				for _, fn := range fnames {
					src := readFile(fn)
					if src == nil || !corpus.Canonical(src) {
						continue
					}
					c.Count("files:parsedir", 1)
					var buf bytes.Buffer
					var perr error
					if s, d := fw.Try(func() { perr = decorator.Fprint(&buf, pkg.Files[fn]) }); s != "" {
						c.Violate("parsedir-panic", s, d, fn)
						continue
					}
					if perr == nil && bytes.Equal(buf.Bytes(), src) {
						c.Count("roundtrips_ok", 1)
						continue
					}
					// classify: does the same file fail on its own?
					preds := textPredicates(src)
					if !c01FailsAny(src) {
						preds = append(preds, "only-via-package-decoration")
					}
					sort.Strings(preds)
					detail := "ParseDir file " + fn + ": "
					if perr != nil {
						detail += shortErr(perr)
					} else {
						detail += obs.DiffContext(buf.Bytes(), src)
					}
					if !c01FailsAny(src) {
						c.Violate("roundtrip/ParseDir", sigOf("roundtrip-parsedir", preds), detail, fn)
					} else {
						// the file fails on its own as well: classified like any other file
						sig, _ := c01Signature(src)
						c.Violate("roundtrip/ParseDir", sig, detail, fn)
					}
				}
				// a package worker: one FileRestorer restores every file of the package first and the
				// files are printed only afterwards (format.Node on the restorer's file set)
				c01RestoreAllThenPrint(c, "dir:"+corpus.Rel(d)+"/"+pn, pkg, fnames)
			}
		})
	}

	for t := range types {
		c.Observe("node_types", t)
	}
	for p := range points {
		c.Observe("decorated_points", p)
	}
	_ = dst.None
}
