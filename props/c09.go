package props

import (
	"bytes"
	"fmt"
	"go/ast"
	"go/parser"
	"go/token"
	"go/types"
	"sort"
	"strings"
	"verif/internal/obs"

	"github.com/dave/dst"
	"github.com/dave/dst/decorator"
	"github.com/dave/dst/decorator/resolver/goast"
	"github.com/dave/dst/decorator/resolver/gotypes"
	"github.com/dave/dst/decorator/resolver/guess"
	"github.com/dave/dst/decorator/resolver/simple"
	"golang.org/x/tools/go/packages"

	"verif/internal/corpus"
	"verif/internal/fw"
	"verif/internal/gen"
	"verif/internal/refl"
)

func init() {
	fw.Register(&fw.Check{
		ID:    "C09",
		Level: "exploration",
		Rule: "cases: (a) standard-library packages type-checked from source with go/types (every file, every identifier); (b) generated multi-package programs (two packages named alike, a " +
			"package whose name differs from its path, a dotted and an undotted path, a vendored package, aliases, one dot-import per file, shadowing locals, composite-literal keys, method " +
			"values, embedded imported types, generic instantiation with imported type arguments, labels, universe names), type-checked with an in-memory importer, decorated with " +
			"ResolveLocalPath off and on. Oracle: for every identifier the expected path is computed from go/types alone (Uses object of another package declared at that package's scope -> " +
			"its path with the vendor prefix stripped by the oracle's own implementation; anything else -> none) and compared with Ident.Path of the dst identifier it maps to. goast is " +
			"compared with gotypes on files without dot-imports (a disagreement at an identifier whose qualifier is shadowed per go/types is outside goast's stated domain and only " +
			"counted) and must return an error for dot-imports and for two imports with one name. distinct_nontrivial = distinct (program/file, identifier role) combinations with at least one remote identifier.",
		Floor: 60,
		Run:   runC09,
		Assumptions: []string{
			"go/types (importer \"source\" for std, in-memory importer for generated programs) is the reference for what an identifier denotes",
		},
		Required: map[string]int{"roles": 7},
	})
}

// oracleStripVendor re-implements the vendor rule from its description: the import path is what
// follows the last "/vendor/" element, or a leading "vendor/".
func oracleStripVendor(p string) string {
	if i := strings.LastIndex(p, "/vendor/"); i >= 0 {
		return p[i+len("/vendor/"):]
	}
	if strings.HasPrefix(p, "vendor/") {
		return p[len("vendor/"):]
	}
	return p
}

// expectedPath classifies one ast identifier from type information only.
func expectedPath(id *ast.Ident, info *types.Info, self *types.Package, resolveLocal bool) (path, role string) {
	// an embedded field's type name is both a definition (of the field) and a use (of the type):
	// the use decides
	obj, ok := info.Uses[id]
	if !ok {
		if _, isDef := info.Defs[id]; isDef {
			return "", "def"
		}
		return "", "untyped" // package clause name etc.
	}
	switch o := obj.(type) {
	case *types.PkgName:
		return "", "pkgname"
	case *types.Label:
		return "", "label"
	case *types.Builtin:
		if o.Pkg() == nil {
			return "", "universe"
		}
		// unsafe.Sizeof and friends: members of package unsafe reached through a qualified selector
		return oracleStripVendor(o.Pkg().Path()), "remote"
	case *types.Nil:
		return "", "universe"
	case *types.Var:
		if o.IsField() {
			return "", "field"
		}
	case *types.Func:
		if sig, ok := o.Type().(*types.Signature); ok && sig.Recv() != nil {
			return "", "method"
		}
	}
	if obj.Pkg() == nil {
		return "", "universe"
	}
	if obj.Parent() != obj.Pkg().Scope() {
		return "", "local"
	}
	if obj.Pkg() == self {
		if resolveLocal {
			return oracleStripVendor(self.Path()), "package-level-local"
		}
		return "", "package-level-local"
	}
	return oracleStripVendor(obj.Pkg().Path()), "remote"
}

// c09CheckFile compares every identifier of one decorated file with the oracle.
func c09CheckFile(c *fw.Ctx, label string, d *decorator.Decorator, af *ast.File, df *dst.File, info *types.Info, self *types.Package, resolveLocal bool, src string) (remote int, paths map[*ast.Ident]string) {
	paths = map[*ast.Ident]string{}
	parentSel := map[*ast.Ident]*ast.SelectorExpr{}
	ast.Inspect(af, func(n ast.Node) bool {
		if se, ok := n.(*ast.SelectorExpr); ok {
			parentSel[se.Sel] = se
			if x, ok := se.X.(*ast.Ident); ok {
				parentSel[x] = se
			}
		}
		return true
	})
	ast.Inspect(af, func(n ast.Node) bool {
		id, ok := n.(*ast.Ident)
		if !ok {
			return true
		}
		want, role := expectedPath(id, info, self, resolveLocal)
		c.Observe("roles", role)
		c.Count("identifiers:"+role, 1)
		dn := d.Dst.Nodes[id]
		di, isIdent := dn.(*dst.Ident)
		if !isIdent {
			c.Violate("ident-unmapped", "ident-unmapped", fmt.Sprintf("%s: identifier %s maps to %T", label, id.Name, dn), src)
			return true
		}
		got := di.Path
		if role == "pkgname" {
			// the qualifier of a collapsed selector maps to the collapsed identifier: its Path belongs to Sel
			if se := parentSel[id]; se != nil && d.Dst.Nodes[se] == dn {
				return true
			}
			want = ""
		}
		if se := parentSel[id]; se != nil && se.Sel != id && d.Dst.Nodes[se] == dn {
			return true // X of a collapsed selector
		}
		paths[id] = got
		if got != want {
			c.Violate("path-differs", "path-differs:"+role, fmt.Sprintf("%s: identifier %q (%s) at %v: Path %q, go/types says %q", label, id.Name, role, d.Fset.Position(id.Pos()), got, want), src)
		}
		if want != "" {
			remote++
		}
		return true
	})
	// every dst identifier with a path must stem from a remote (or local-resolved) use
	dst.Inspect(df, func(n dst.Node) bool {
		if di, ok := n.(*dst.Ident); ok && di.Path != "" {
			an := d.Ast.Nodes[di]
			var id *ast.Ident
			switch x := an.(type) {
			case *ast.Ident:
				id = x
			case *ast.SelectorExpr:
				id = x.Sel
			}
			if id == nil {
				c.Violate("path-on-unmapped", "path-on-unmapped", label+": dst identifier with a path has no ast origin", src)
				return true
			}
			want, role := expectedPath(id, info, self, resolveLocal)
			if want != di.Path {
				c.Violate("path-differs", "path-differs:dst:"+role, fmt.Sprintf("%s: dst identifier %q has Path %q, go/types says %q (%s)", label, di.Name, di.Path, want, role), src)
			}
		}
		return true
	})
	return remote, paths
}

// c09Fragments decorates parts of a file on their own (a declaration, a statement, an expression,
// a qualified identifier by itself) with a fresh decorator: every identifier gets the path it got
// when the whole file was decorated.
func c09Fragments(c *fw.Ctx, label string, fset *token.FileSet, pkgPath string, af *ast.File, info *types.Info, whole map[*ast.Ident]string, src string) {
	var nodes []ast.Node
	ast.Inspect(af, func(n ast.Node) bool {
		switch v := n.(type) {
		case *ast.SelectorExpr, *ast.CallExpr, *ast.FuncDecl, *ast.GenDecl, *ast.CompositeLit, *ast.FieldList, *ast.IndexExpr, *ast.IndexListExpr, *ast.StarExpr:
			nodes = append(nodes, n)
		case *ast.BlockStmt:
			for _, st := range v.List {
				nodes = append(nodes, st)
			}
		case *ast.Field:
			// (a bare identifier as the root has no parent to tell the resolver what it is: the
			// decorator refuses it by design)
			if _, isIdent := v.Type.(*ast.Ident); v.Type != nil && !isIdent {
				nodes = append(nodes, v.Type)
			}
		}
		return true
	})
	if len(nodes) > 60 {
		nodes = nodes[:60]
	}
	for _, n := range nodes {
		d := decorator.NewDecoratorWithImports(fset, pkgPath, gotypes.New(info.Uses))
		var err error
		var out dst.Node
		if sig, detail := fw.Try(func() { out, err = d.DecorateNode(n) }); sig != "" {
			c.Violate("decorate-panic", sig, fmt.Sprintf("%s: DecorateNode(%T): %s", label, n, detail), src)
			return
		}
		if err != nil || refl.IsNil(out) {
			c.Violate("decorate-error", "decorate-error:fragment", fmt.Sprintf("%s: DecorateNode(%T): %v", label, n, err), src)
			return
		}
		c.Count("fragments_decorated", 1)
		c.Observe("fragment_types", refl.TypeName(n))
		bad := ""
		ast.Inspect(n, func(x ast.Node) bool {
			id, ok := x.(*ast.Ident)
			if !ok || bad != "" {
				return true
			}
			want, known := whole[id]
			if !known {
				return true
			}
			di, ok := d.Dst.Nodes[id].(*dst.Ident)
			if !ok {
				bad = fmt.Sprintf("identifier %q at %v maps to %T", id.Name, fset.Position(id.Pos()), d.Dst.Nodes[id])
				return true
			}
			if di.Path != want {
				bad = fmt.Sprintf("identifier %q at %v has Path %q, in the whole file it has %q", id.Name, fset.Position(id.Pos()), di.Path, want)
			}
			return true
		})
		if bad != "" {
			c.Violate("fragment-path-differs", "fragment-path-differs:"+refl.TypeName(n), fmt.Sprintf("%s: %s decorated on its own: %s", label, refl.TypeName(n), bad), src)
			return
		}
	}
}

func runC09(c *fw.Ctx) {
	// (a) std packages
	dirs := c08Dirs(c)
	if c.Quick() && len(dirs) > 14 {
		dirs = dirs[:14]
	}
	for i, dir := range dirs {
		if !c.Mine(i) {
			continue
		}
		tc := typeCheckDir(dir)
		if tc.err != nil || tc.info == nil {
			c.Count("inconclusive_typecheck_failed", 1)
			continue
		}
		var fns []string
		for fn := range tc.files {
			fns = append(fns, fn)
		}
		sort.Strings(fns)
		for _, fn := range fns {
			af := tc.files[fn]
			id := "typed:" + corpus.Rel(fn)
			c.Case(id, func() {
				d := decorator.NewDecoratorWithImports(tc.fset, tc.pkg.Path(), gotypes.New(tc.info.Uses))
				df, err := d.DecorateFile(af)
				if err != nil {
					c.Violate("decorate-error", "decorate-error:gotypes", id+": "+err.Error(), "")
					return
				}
				remote, tpaths := c09CheckFile(c, id, d, af, df, tc.info, tc.pkg, false, "")
				c.Count("files:gotypes", 1)
				if remote > 0 {
					c.Nontrivial(id)
				}
				c09Goast(c, id, tc.fset, af, tc.info, tpaths, importNamesOf(af, tc.info), "")
			})
		}
	}

	// (b) generated programs
	n := c.Pick(800, 20000)
	for i := 0; i < n; i++ {
		if !c.Mine(i) {
			continue
		}
		id := fmt.Sprintf("program:%d", i)
		c.Case(id, func() {
			r := c.Rand(id)
			p := gen.GenProgram(r, 1+r.Intn(3))
			srcs := map[string]string{}
			for _, f := range p.Files {
				srcs[f.Name] = f.Src
			}
			// every third program is itself a vendored package: its own path has a vendor element
			// (the decorator is told that path; local identifiers still get none)
			pkgPath := p.PkgPath
			if i%3 == 2 {
				pkgPath = "ex.com/host/vendor/" + p.PkgPath
				c.Count("programs_with_vendored_local_path", 1)
			}
			files, info, pkg, err := p.Check(srcs, pkgPath)
			if err != nil {
				c.Count("inconclusive_program_rejected_by_go_types", 1)
				return
			}
			c.Count("programs", 1)
			for k, af := range files {
				for _, resolveLocal := range []bool{false, true} {
					d := decorator.NewDecoratorWithImports(p.Fset, pkgPath, gotypes.New(info.Uses))
					d.ResolveLocalPath = resolveLocal
					df, err := d.DecorateFile(af)
					if err != nil {
						c.Violate("decorate-error", "decorate-error:gotypes", id+": "+err.Error(), p.Files[k].Src)
						continue
					}
					label := fmt.Sprintf("%s/%s/resolveLocal=%v", id, p.Files[k].Name, resolveLocal)
					remote, tpaths := c09CheckFile(c, label, d, af, df, info, pkg, resolveLocal, p.Files[k].Src)
					if remote > 0 {
						c.Nontrivial(label)
					}
					if !resolveLocal {
						c09Fragments(c, label, p.Fset, pkgPath, af, info, tpaths, p.Files[k].Src)
						// a resolver made before type checking has filled the Uses map it was given (one
						// types.Info that keeps growing, as when several packages are checked into it)
						late := map[*ast.Ident]types.Object{}
						lres := gotypes.New(late)
						for ik, iv := range info.Uses {
							late[ik] = iv
						}
						dl := decorator.NewDecoratorWithImports(p.Fset, pkgPath, lres)
						if dfl, err := dl.DecorateFile(af); err != nil {
							c.Violate("decorate-error", "decorate-error:gotypes-late-uses", id+": "+err.Error(), p.Files[k].Src)
						} else {
							c09CheckFile(c, label+"/resolver-made-before-type-checking", dl, af, dfl, info, pkg, false, p.Files[k].Src)
							c.Count("files:late-uses", 1)
						}
						c09Goast(c, label, p.Fset, af, info, tpaths, importNamesOf(af, info), p.Files[k].Src)
						// the decorator that Load builds for a loaded package: go/packages gives the test
						// variant of a package an ID that differs from its import path
						pid := []string{pkgPath, pkgPath + " [" + pkgPath + ".test]", "file=" + p.Files[k].Name}[(i+k)%3]
						lp := &packages.Package{ID: pid, Name: pkg.Name(), PkgPath: pkgPath, Fset: p.Fset, Syntax: files, Types: pkg, TypesInfo: info}
						d2 := decorator.NewDecoratorFromPackage(lp)
						df2, err := d2.DecorateFile(af)
						if err != nil {
							c.Violate("decorate-error", "decorate-error:from-package", id+": "+err.Error(), p.Files[k].Src)
							continue
						}
						c.Count("files:from-package", 1)
						c09CheckFile(c, label+"/NewDecoratorFromPackage(ID="+[]string{"path", "test-variant", "other"}[(i+k)%3]+")", d2, af, df2, info, pkg, false, p.Files[k].Src)
					}
				}
			}
			c09PackageGoast(c, id, p)
			// the files after go/ast's own package-level resolution with an importer that exposes the
			// imported packages' scopes (dot-imported names then carry an ast object of the other
			// package): the types-based resolver decides from go/types alone, as before
			if files2, info2, pkg2, err := p.Check(srcs, pkgPath); err == nil {
				byPath := map[string]*types.Package{}
				for _, ip := range pkg2.Imports() {
					byPath[ip.Path()] = ip
					byPath[oracleStripVendor(ip.Path())] = ip
				}
				importer := func(imports map[string]*ast.Object, path string) (*ast.Object, error) {
					if o := imports[path]; o != nil {
						return o, nil
					}
					tp := byPath[path]
					if tp == nil {
						return nil, fmt.Errorf("unknown package %s", path)
					}
					po := ast.NewObj(ast.Pkg, tp.Name())
					sc := ast.NewScope(nil)
					for _, n := range tp.Scope().Names() {
						kind := ast.Var
						switch tp.Scope().Lookup(n).(type) {
						case *types.Func:
							kind = ast.Fun
						case *types.TypeName:
							kind = ast.Typ
						case *types.Const:
							kind = ast.Con
						}
						sc.Insert(ast.NewObj(kind, n))
					}
					po.Data = sc
					imports[path] = po
					return po, nil
				}
				fm := map[string]*ast.File{}
				for k, af := range files2 {
					fm[p.Files[k].Name] = af
				}
				ast.NewPackage(p.Fset, fm, importer, nil)
				for k, af := range files2 {
					d := decorator.NewDecoratorWithImports(p.Fset, pkgPath, gotypes.New(info2.Uses))
					df, err := d.DecorateFile(af)
					if err != nil {
						c.Violate("decorate-error", "decorate-error:gotypes-after-newpackage", id+": "+err.Error(), p.Files[k].Src)
						continue
					}
					c09CheckFile(c, fmt.Sprintf("%s/%s/after-ast.NewPackage", id, p.Files[k].Name), d, af, df, info2, pkg2, false, p.Files[k].Src)
					c.Count("files:after-newpackage", 1)
				}
			}
			if i < 3 {
				c.Sample(map[string]interface{}{"case": id, "files": srcs})
			}
		})
	}
}

// importNamesOf builds the accurate path->name map of a file from go/types.
func importNamesOf(af *ast.File, info *types.Info) map[string]string {
	m := map[string]string{}
	for _, im := range af.Imports {
		var pn *types.PkgName
		if im.Name != nil {
			pn, _ = info.Defs[im.Name].(*types.PkgName)
		} else if o, ok := info.Implicits[im]; ok {
			pn, _ = o.(*types.PkgName)
		}
		p := strings.Trim(im.Path.Value, "\"")
		if pn != nil {
			m[p] = pn.Imported().Name()
		}
	}
	return m
}

// c09Goast runs the syntax-only resolver on the same file and compares with the types-based paths.
func c09Goast(c *fw.Ctx, label string, fset *token.FileSet, af *ast.File, info *types.Info, tpaths map[*ast.Ident]string, names map[string]string, src string) {
	// exact names: from the imports actually resolved by go/types
	full := map[string]string{}
	hasDot := false
	nameCount := map[string]int{}
	for _, im := range af.Imports {
		p := strings.Trim(im.Path.Value, "\"")
		if im.Name != nil && im.Name.Name == "." {
			hasDot = true
		}
		if p == "C" {
			continue
		}
		var pkgName string
		for id, obj := range info.Uses {
			_ = id
			if pn, ok := obj.(*types.PkgName); ok && pn.Imported().Path() == p || ok && oracleStripVendor(pn.Imported().Path()) == p {
				pkgName = pn.Imported().Name()
				break
			}
		}
		if pkgName == "" {
			if n := corpus.StdPkgName(p); n != "" {
				pkgName = n
			} else {
				for _, l := range gen.Libs {
					if l.ImportPath == p {
						pkgName = l.Name
					}
				}
			}
		}
		if pkgName == "" {
			c.Count("goast_skipped_unknown_name", 1)
			return
		}
		full[p] = pkgName
		eff := pkgName
		if im.Name != nil {
			eff = im.Name.Name
		}
		if eff != "_" && eff != "." {
			nameCount[eff]++
		}
	}
	dupName := false
	for _, k := range nameCount {
		if k > 1 {
			dupName = true
		}
	}
	// the exact name table through either of the two map-backed resolvers
	gres := goast.WithResolver(simple.New(full))
	if len(label)%2 == 0 {
		gres = goast.WithResolver(guess.WithMap(full))
	}
	d := decorator.NewDecoratorWithImports(fset, "ex.com/self-goast", gres)
	df, err := d.DecorateFile(af)
	if (hasDot || dupName) && err != nil {
		// the refusal is a property of the file, not of the first query: a second decorator that
		// shares the resolver, and direct queries for every qualified identifier, must be refused too
		if _, err2 := decorator.NewDecoratorWithImports(fset, "ex.com/self-goast", gres).DecorateFile(af); err2 == nil {
			c.Violate("goast-guesses", "goast-guesses:second-decorator", fmt.Sprintf("%s: the first decoration was refused (%v) but a second decorator sharing the resolver decorated the same file without an error", label, err), src)
		}
		asked, answered := 0, 0
		ast.Inspect(af, func(n ast.Node) bool {
			if se, ok := n.(*ast.SelectorExpr); ok {
				if x, ok := se.X.(*ast.Ident); ok && x.Obj == nil {
					asked++
					if p, e := gres.ResolveIdent(af, se, "Sel", se.Sel); e == nil && p != "" {
						answered++
					}
				}
			}
			return true
		})
		c.Count("goast_repeated_queries_on_refused_files", int64(asked))
		if answered > 0 {
			c.Violate("goast-guesses", "goast-guesses:repeated-query", fmt.Sprintf("%s: after refusing the file, the resolver answered %d of %d further queries with a path and no error", label, answered, asked), src)
		}
	}
	if hasDot || dupName {
		anySelector := false
		ast.Inspect(af, func(n ast.Node) bool {
			if _, ok := n.(*ast.SelectorExpr); ok {
				anySelector = true
			}
			return true
		})
		if err == nil && anySelector {
			c.Violate("goast-guesses", "goast-guesses", fmt.Sprintf("%s: goast decorated a file with a dot-import / two imports of one name without returning an error", label), src)
		}
		c.Count("goast_refused_outside_domain", 1)
		return
	}
	if err != nil {
		c.Violate("goast-error", "goast-error", label+": "+err.Error(), src)
		return
	}
	_ = df
	c.Count("files:goast", 1)
	for id, want := range tpaths {
		dn, _ := d.Dst.Nodes[id].(*dst.Ident)
		if dn == nil {
			continue
		}
		got := dn.Path
		if got == want {
			continue
		}
		// outside goast's stated domain: the qualifier's name is shadowed (per go/types the X of
		// the enclosing selector is not a package name although it is spelled like an import)
		if c09Shadowed(af, id, info, full) {
			c.Count("goast_disagreement_on_shadowed_name(outside domain)", 1)
			continue
		}
		c.Violate("goast-differs", "goast-differs", fmt.Sprintf("%s: identifier %q: goast Path %q, gotypes Path %q", label, id.Name, got, want), src)
	}
}

func c09Shadowed(af *ast.File, id *ast.Ident, info *types.Info, names map[string]string) bool {
	shadowed := false
	ast.Inspect(af, func(n ast.Node) bool {
		se, ok := n.(*ast.SelectorExpr)
		if !ok || se.Sel != id {
			return true
		}
		if x, ok := se.X.(*ast.Ident); ok {
			if _, isPkg := info.Uses[x].(*types.PkgName); !isPkg {
				shadowed = true
			}
		}
		return false
	})
	return shadowed
}

var _ = refl.TypeName

// c09PackageGoast decorates the files of a generated program together, as one *ast.Package, with the
// syntax-only resolver, and compares every identifier's path with the same file decorated alone.
// Later files carry a //line directive that names the first file (generated-code style), so a file
// cannot be told from its neighbours by reported file names.
func c09PackageGoast(c *fw.Ctx, id string, p *gen.Program) {
	if len(p.Files) < 2 {
		return
	}
	names := map[string]string{}
	for _, l := range gen.Libs {
		names[l.ImportPath] = l.Name
	}
	srcs := map[string][]byte{}
	var order []string
	for k, fs := range p.Files {
		for _, nm := range fs.Naming {
			if nm == "." {
				return // outside the syntax-only resolver's domain
			}
		}
		src := []byte(fs.Src)
		if k > 0 {
			i := bytes.IndexByte(src, '\n')
			if i < 0 {
				return
			}
			src = append(append(append([]byte{}, src[:i+1]...), []byte("\n//line "+p.Files[0].Name+":1\n")...), src[i+1:]...)
		}
		srcs[fs.Name] = src
		order = append(order, fs.Name)
	}
	paths := func(df *dst.File) []string {
		var out []string
		dst.Inspect(df, func(n dst.Node) bool {
			if idn, ok := n.(*dst.Ident); ok {
				out = append(out, idn.Name+"@"+idn.Path)
			}
			return true
		})
		return out
	}
	fset := token.NewFileSet()
	apkg := &ast.Package{Name: "self", Files: map[string]*ast.File{}}
	alone := map[string][]string{}
	for _, name := range order {
		af, err := parser.ParseFile(fset, name, srcs[name], parser.ParseComments)
		if err != nil {
			return
		}
		apkg.Files[name] = af
		fs1 := token.NewFileSet()
		af1, err := parser.ParseFile(fs1, name, srcs[name], parser.ParseComments)
		if err != nil {
			return
		}
		df1, err := decorator.NewDecoratorWithImports(fs1, "ex.com/self-goast", goast.WithResolver(simple.New(names))).DecorateFile(af1)
		if err != nil {
			return // refused (two imports of one name): covered by the per-file comparison
		}
		alone[name] = paths(df1)
	}
	var dn dst.Node
	var err error
	if sig, detail := fw.Try(func() {
		dn, err = decorator.NewDecoratorWithImports(fset, "ex.com/self-goast", goast.WithResolver(simple.New(names))).DecorateNode(apkg)
	}); sig != "" {
		c.Violate("decorate-panic", sig, id+" [package+goast]\n"+detail, "")
		return
	}
	if err != nil {
		c.Violate("goast-error", "goast-error:package", id+": every file decorates alone, the package does not: "+err.Error(), "")
		return
	}
	for _, name := range order {
		df := dn.(*dst.Package).Files[name]
		if df == nil {
			continue
		}
		got := paths(df)
		if i := obs.FirstDiff(got, alone[name]); i >= 0 {
			c.Violate("goast-differs", "goast-differs:package-vs-file", fmt.Sprintf("%s: %s identifier #%d is %q when the package is decorated, %q when the file is decorated alone", id, name, i, at(got, i), at(alone[name], i)), string(srcs[name]))
			return
		}
	}
	c.Count("packages_decorated_with_goast", 1)
}
