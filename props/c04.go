package props

import (
	"bytes"
	"fmt"
	"github.com/dave/dst/decorator/resolver/goast"
	"github.com/dave/dst/decorator/resolver/simple"
	"go/ast"
	"go/format"
	"go/token"
	"reflect"
	"sort"
	"strings"
	"sync"

	"github.com/dave/dst"
	"github.com/dave/dst/decorator"
	"github.com/dave/dst/dstutil"
	"github.com/dave/dst/verifhook"

	"verif/internal/corpus"
	"verif/internal/fw"
	"verif/internal/gen"
	"verif/internal/obs"
	"verif/internal/refl"
)

func init() {
	fw.Register(&fw.Check{
		ID:    "C04",
		Level: "exploration",
		Rule: "cases: corpus trees, the hand-written construct snippets and gendst/data/positions.go, decorated (a) all points at once: a unique block comment on every attachment point of " +
			"every node (points found by reflection over each node's Decs struct), plus line comments and \"\\n\" decorations on Start/End of list statements and declarations where a line " +
			"break is harmless; (b) one point at a time for a seeded sample of sites per file. Monitors: (1) every comment id occurs exactly once in the scanner stream of the output and the " +
			"token stream equals that of the undecorated print; (2) the restorer's Dec hook log holds every decoration of the tree exactly once; (3) placement on the restored ast: Start " +
			"before the node's first position, End after its last, a named point after the token/child it is named for and before the node's next own token or child (documented " +
			"exceptions listed in the source); (4) within a node the comments follow the order of dstutil.Decorations; (5) dstutil.Decorations lists exactly the reflection-found points in " +
			"that order, sharing the node's storage, and Node.Decorations() is &Decs.NodeDecs (nil for Package); (6) decorate+print of a gofmt-stable decorated output is the identity. " +
			"distinct_nontrivial = distinct (node type, point, comment kind) triples exercised.",
		Floor: 40,
		Run:   runC04,
		Assumptions: []string{
			"placement is judged on the positions of the restored ast (the restorer's responsibility); how go/printer lays a comment out relative to tokens it does not position separately (commas, periods) is outside the statement",
			"points whose name matches no field of the go/ast node (FuncDecl.Func/TypeParams/Params/Results, ValueSpec.Assign, Ident.X ...) have no token/child referent; for them only exactly-once and order are asserted",
		},
		Required: map[string]int{"type_points": 180},
	})
}

type decSite struct {
	node  dst.Node
	point string
	text  string
	kind  string
}

// anchorAlias maps a point name to the ast field holding the token position it is named for.
var anchorAlias = map[string]string{"Tok": "TokPos", "Op": "OpPos", "Arrow": "Arrow"}

// c04Exceptions: points documented (doc example in decorations-types-generated.go) to sit
// somewhere else than "after the field of the same name".
//
//	IfStmt.Else     "} else /*Else*/ {": after the else keyword, i.e. BEFORE the child named Else
//	TypeSpec.Name   alias form "type T = /*Name*/ U"? no: "T /*Name*/ = U" is what positions.go shows for non-alias; for an alias the '=' follows Name
var c04OrderOnly = map[string]string{
	"IfStmt.Else": "documented after the else keyword, before the Else child",
}

func nodeOwnElements(an ast.Node) []token.Pos {
	var out []token.Pos
	v := reflect.ValueOf(an).Elem()
	for i := 0; i < v.NumField(); i++ {
		f := v.Field(i)
		fn := v.Type().Field(i).Name
		if fn == "Doc" || fn == "Comment" || fn == "Comments" {
			continue
		}
		switch {
		case f.Type() == posType:
			if p := token.Pos(f.Int()); p.IsValid() {
				out = append(out, p)
			}
		case f.Kind() == reflect.Ptr || f.Kind() == reflect.Interface:
			if !f.IsNil() {
				if n, ok := f.Interface().(ast.Node); ok && !refl.IsNil(n) && n.Pos().IsValid() {
					out = append(out, n.Pos())
				}
			}
		case f.Kind() == reflect.Slice:
			for j := 0; j < f.Len(); j++ {
				if n, ok := f.Index(j).Interface().(ast.Node); ok && !refl.IsNil(n) && n.Pos().IsValid() {
					out = append(out, n.Pos())
				}
			}
		}
	}
	sort.Slice(out, func(i, j int) bool { return out[i] < out[j] })
	return out
}

// anchorOf returns the position after which a named point must lie (lower bound, exclusive for a
// token start, inclusive for a child end) and whether a referent exists.
func anchorOf(an ast.Node, point string) (lo token.Pos, inclusive bool, ok bool) {
	v := reflect.ValueOf(an).Elem()
	name := point
	if a, has := anchorAlias[point]; has && v.FieldByName(a).IsValid() {
		name = a
	}
	if fd, ok := an.(*ast.FuncDecl); ok && fd.Type != nil {
		// the signature's parts live on FuncDecl.Type in go/ast
		switch point {
		case "Func", "TypeParams", "Params", "Results":
			v = reflect.ValueOf(fd.Type).Elem()
		}
	}
	f := v.FieldByName(name)
	if !f.IsValid() {
		return 0, false, false
	}
	switch {
	case f.Type() == posType:
		p := token.Pos(f.Int())
		return p, false, p.IsValid()
	case f.Kind() == reflect.Ptr || f.Kind() == reflect.Interface:
		if f.IsNil() {
			return 0, false, false
		}
		n, isNode := f.Interface().(ast.Node)
		if !isNode || refl.IsNil(n) || !n.End().IsValid() {
			return 0, false, false
		}
		return n.End(), true, true
	case f.Kind() == reflect.Slice:
		if f.Len() == 0 {
			return 0, false, false
		}
		n, isNode := f.Index(f.Len() - 1).Interface().(ast.Node)
		if !isNode || refl.IsNil(n) {
			return 0, false, false
		}
		return n.End(), true, true
	}
	return 0, false, false
}

// c04Accessors checks monitor (5) for every node of the tree.
func c04Accessors(c *fw.Ctx, label string, root dst.Node) {
	dst.Inspect(root, func(n dst.Node) bool {
		if n == nil {
			return false
		}
		tn := refl.TypeName(n)
		if _, ok := n.(*dst.Package); ok {
			if n.Decorations() != nil {
				c.Violate("accessor", "accessor:Package", label+": Package.Decorations() is not nil", "")
			}
			return true
		}
		dv := reflect.ValueOf(n).Elem().FieldByName("Decs")
		var names []string
		var ptrs []*dst.Decorations
		forEachDecs(dv, func(name string, d *dst.Decorations) {
			names = append(names, name)
			ptrs = append(ptrs, d)
		})
		before, after, points := dstutil.Decorations(n)
		nd := dv.FieldByName("NodeDecs").Addr().Interface().(*dst.NodeDecs)
		if n.Decorations() != nd {
			c.Violate("accessor", "accessor:Decorations():"+tn, label+": "+tn+".Decorations() does not return &Decs.NodeDecs", "")
		}
		if before != nd.Before || after != nd.After {
			c.Violate("accessor", "accessor:spacing:"+tn, label+": dstutil.Decorations spacing differs from the node's", "")
		}
		if len(points) != len(names) {
			c.Violate("accessor", "accessor:points:"+tn, fmt.Sprintf("%s: dstutil lists %d points for %s, reflection finds %d", label, len(points), tn, len(names)), "")
			return true
		}
		for i := range points {
			if points[i].Name != names[i] {
				c.Violate("accessor", "accessor:order:"+tn, fmt.Sprintf("%s: %s point #%d is %q in dstutil, %q by reflection (Start, struct order, End)", label, tn, i, points[i].Name, names[i]), "")
				break
			}
			if !sameList(points[i].Decs, *ptrs[i]) {
				c.Violate("accessor", "accessor:content:"+tn+"."+names[i], label+": dstutil.Decorations content differs from the node's field", "")
			}
			if len(points[i].Decs) > 0 && &points[i].Decs[0] != &(*ptrs[i])[0] {
				c.Violate("accessor", "accessor:storage:"+tn+"."+names[i], label+": dstutil.Decorations does not share the node's storage", "")
			}
		}
		c.Count("accessor_nodes", 1)
		return true
	})
}

var c04HookMu sync.Mutex

// c04SeenSingle: (type.point) keys already decorated on their own by this worker.
var c04SeenSingle = map[string]bool{}

// c04Restore restores f while recording Dec hook events.
func c04Restore(f *dst.File) (*decorator.Restorer, *ast.File, []string, string) {
	c04HookMu.Lock()
	defer c04HookMu.Unlock()
	var events []string
	verifhook.Set(&verifhook.Handler{Dec: func(nodeType, point, text string, cursor, cnl int) {
		events = append(events, text)
	}})
	defer verifhook.Set(nil)
	r := decorator.NewRestorer()
	var rf *ast.File
	var err error
	if sig, detail := fw.Try(func() { rf, err = r.RestoreFile(f) }); sig != "" {
		return nil, nil, nil, sig + "\n" + detail
	}
	if err != nil {
		return nil, nil, nil, "error: " + err.Error()
	}
	return r, rf, events, ""
}

// c04Check runs monitors 1-4 and 6 on a decorated tree; sites are the decorations added.
func c04Check(c *fw.Ctx, label string, f *dst.File, sites []decSite, baseTokens []string, src string, mode string) {
	viol := func(rule, sig, detail string) { c.Violate(rule, sig, label+" ["+mode+"]: "+detail, src) }
	r, rf, events, perr := c04Restore(f)
	if perr != "" {
		viol("restore-failed", "restore-failed", perr)
		return
	}
	// (2) hook log: every decoration string of the tree exactly once
	want := map[string]int{}
	dst.Inspect(f, func(n dst.Node) bool {
		if n == nil {
			return false
		}
		if _, ok := n.(*dst.Package); ok {
			return true
		}
		forEachDecs(reflect.ValueOf(n).Elem().FieldByName("Decs"), func(name string, d *dst.Decorations) {
			for _, s := range *d {
				want[s]++
			}
		})
		return true
	})
	got := map[string]int{}
	for _, e := range events {
		got[e]++
	}
	_ = 0
	for _, s := range sites {
		if s.kind != "newline" && got[s.text] != 1 {
			viol("hook-exactly-once", "hook-exactly-once:"+refl.TypeName(s.node)+"."+s.point, fmt.Sprintf("decoration %q on %s.%s was applied %d times by the restorer", s.text, refl.TypeName(s.node), s.point, got[s.text]))
			break
		}
	}
	for s, k := range want {
		if got[s] != k {
			viol("hook-exactly-once", "hook-exactly-once:count", fmt.Sprintf("decoration %q is %d times in the tree but was applied %d times", s, k, got[s]))
			break
		}
	}
	if len(events) != func() int {
		t := 0
		for _, k := range want {
			t += k
		}
		return t
	}() {
		viol("hook-exactly-once", "hook-exactly-once:total", fmt.Sprintf("%d decorations in the tree, %d applied", len(want), len(events)))
	}
	c.Count("dec_hook_events", int64(len(events)))
	var buf bytes.Buffer
	if err := format.Node(&buf, r.Fset, rf); err != nil {
		viol("print-failed", "print-failed", err.Error())
		return
	}
	out := buf.Bytes()
	toks, _ := obs.Scan(out)
	// (1) exactly once in print, tokens unchanged
	occ := map[string]int{}
	for _, t := range toks {
		if t.Tok == token.COMMENT {
			occ[obs.StripSpace(t.Lit)]++ // go/printer may re-space a comment it treats as a doc comment
		}
	}
	for _, s := range sites {
		if s.kind == "newline" {
			continue
		}
		if occ[obs.StripSpace(s.text)] != 1 {
			viol("print-exactly-once", "print-exactly-once:"+refl.TypeName(s.node)+"."+s.point, fmt.Sprintf("comment %q on %s.%s occurs %d times in the output", s.text, refl.TypeName(s.node), s.point, occ[s.text]))
			break
		}
	}
	if baseTokens != nil {
		ot := obs.Syntax(toks)
		if i := obs.FirstDiff(ot, baseTokens); i >= 0 {
			viol("tokens-changed", "tokens-changed", fmt.Sprintf("token #%d: undecorated %q, decorated %q", i, strings.ReplaceAll(at(baseTokens, i), "\x00", ":"), strings.ReplaceAll(at(ot, i), "\x00", ":")))
		}
	}
	// (3) placement + (4) order on restored positions
	cpos := map[string]token.Pos{}
	for _, cg := range rf.Comments {
		for _, cm := range cg.List {
			cpos[cm.Text] = cm.Slash
		}
	}
	var allPos []token.Pos
	ast.Inspect(rf, func(n ast.Node) bool {
		switch n.(type) {
		case nil:
			return false
		case *ast.CommentGroup, *ast.Comment:
			return false
		}
		v := reflect.ValueOf(n).Elem()
		for i := 0; i < v.NumField(); i++ {
			if v.Field(i).Type() == posType {
				if p := token.Pos(v.Field(i).Int()); p.IsValid() {
					allPos = append(allPos, p)
				}
			}
		}
		return true
	})
	sort.Slice(allPos, func(i, j int) bool { return allPos[i] < allPos[j] })
	prevSyntax := func(p token.Pos) token.Pos { // greatest syntax position < p
		i := sort.Search(len(allPos), func(i int) bool { return allPos[i] >= p })
		if i == 0 {
			return token.NoPos
		}
		return allPos[i-1]
	}
	nextSyntax := func(p token.Pos) token.Pos { // smallest syntax position >= p
		i := sort.Search(len(allPos), func(i int) bool { return allPos[i] >= p })
		if i == len(allPos) {
			return token.Pos(1 << 40)
		}
		return allPos[i]
	}
	byNode := map[dst.Node][]decSite{}
	for _, s := range sites {
		byNode[s.node] = append(byNode[s.node], s)
	}
	for n, ss := range byNode {
		an := r.Ast.Nodes[n]
		tn := refl.TypeName(n)
		if refl.IsNil(an) {
			continue
		}
		// order of points per dstutil
		_, _, pts := dstutil.Decorations(n)
		rank := map[string]int{}
		for i, p := range pts {
			rank[p.Name] = i
		}
		sort.SliceStable(ss, func(i, j int) bool { return rank[ss[i].point] < rank[ss[j].point] })
		var last token.Pos
		for _, s := range ss {
			if s.kind == "newline" {
				continue
			}
			p, ok := cpos[s.text]
			if !ok {
				continue // reported by exactly-once
			}
			key := tn + "." + s.point
			c.Observe("type_points", key)
			c.Nontrivial(key, s.kind)
			if p < last {
				viol("order-within-node", "order-within-node:"+key, fmt.Sprintf("%q (%s) is positioned before a comment of an earlier point of the same node", s.text, key))
			}
			last = p
			if !an.Pos().IsValid() || !an.End().IsValid() {
				continue
			}
			switch s.point {
			case "Start":
				if !(p < an.Pos()) {
					viol("placement", "placement:Start:"+tn, fmt.Sprintf("%q must lie before the first token of %s (pos %d) but is at %d", s.text, tn, an.Pos(), p))
				} else if q := nextSyntax(p); q != an.Pos() && q < an.Pos() {
					viol("placement", "placement:Start-gap:"+tn, fmt.Sprintf("%q: a token (pos %d) lies between the Start comment (%d) and the first token of %s (%d)", s.text, q, p, tn, an.Pos()))
				}
				c.Count("placement_anchored", 1)
			case "End":
				if !(p >= an.End()) {
					viol("placement", "placement:End:"+tn, fmt.Sprintf("%q must lie after the last token of %s (end %d) but is at %d", s.text, tn, an.End(), p))
				} else if q := prevSyntax(p); q >= an.End() {
					viol("placement", "placement:End-gap:"+tn, fmt.Sprintf("%q: a token (pos %d) lies between the end of %s (%d) and its End comment (%d)", s.text, q, tn, an.End(), p))
				}
				c.Count("placement_anchored", 1)
			default:
				if why, skip := c04OrderOnly[key]; skip {
					_ = why
					c.Count("placement_order_only", 1)
					continue
				}
				lo, incl, ok := anchorOf(an, s.point)
				if !ok {
					c.Count("placement_order_only", 1)
					c.Observe("order_only_points", key)
					continue
				}
				c.Count("placement_anchored", 1)
				if (incl && p < lo) || (!incl && p <= lo) {
					viol("placement", "placement:before-anchor:"+key, fmt.Sprintf("%q (%s) must lie after the %s it is named for (pos %d) but is at %d", s.text, key, s.point, lo, p))
					continue
				}
				// upper bound: the next position of any token the ast records (the next token or
				// child that go/printer positions separately)
				var hi token.Pos
				if incl {
					hi = nextSyntax(lo)
				} else {
					hi = nextSyntax(lo + 1)
				}
				if key == "TypeSpec.Name" {
					// documented "type T /*Name*/ = U" / for an alias the Assign token follows the
					// name, the point is rendered after it: allow one more element
					if ts, ok := an.(*ast.TypeSpec); ok && ts.Assign.IsValid() {
						hi = ts.Type.Pos()
					}
				}
				if p > hi {
					viol("placement", "placement:after-next:"+key, fmt.Sprintf("%q (%s) must lie before the node's next token/child (pos %d) but is at %d", s.text, key, hi, p))
				}
			}
		}
	}
	c.Count("sites", int64(len(sites)))
	// (6) round trip of the decorated print. Judged for single-site decorations only: with every
	// point decorated at once the output is a layout no real file has, and where a comment ends up
	// indented is then decided by go/printer heuristics that depend on original columns (the
	// known C01 families and more of the same kind); there the result is only counted.
	if mode == "all" {
		if g, err := format.Source(out); err == nil && bytes.Equal(g, out) {
			if back, err := rtParsePrint(out); err != nil || !bytes.Equal(back, out) {
				c.Count("dense_output_roundtrip_differs(counted only)", 1)
			} else {
				c.Count("dense_output_roundtrip_identical", 1)
			}
		}
	}
	if strings.HasPrefix(mode, "one") {
		if g, err := format.Source(out); err == nil && bytes.Equal(g, out) {
			back, err := rtParsePrint(out)
			if err != nil || !bytes.Equal(back, out) {
				// this is the round-trip property on a generated input: classified exactly like C01
				sig1, _ := c01Signature(out)
				preds := strings.Split(strings.TrimPrefix(sig1, "roundtrip:"), "+")
				sig := "decorated-roundtrip"
				detail := ""
				if err != nil {
					detail = err.Error()
				} else {
					detail = obs.DiffContext(back, out)
				}
				viol("decorated-roundtrip", sigOf(sig, preds), detail)
			}
			c.Count("decorated_roundtrips", 1)
		} else {
			c.Count("decorated_output_not_gofmt_stable", 1)
		}
	}
}

func runC04(c *fw.Ctx) {
	type input struct {
		id  string
		src []byte
	}
	var inputs []input
	snips := extraSnippets()
	var sn []string
	for k := range snips {
		if !strings.HasPrefix(k, "bad:") {
			sn = append(sn, k)
		}
	}
	sort.Strings(sn)
	for _, k := range sn {
		inputs = append(inputs, input{"snippet:" + k, []byte(snips[k])})
	}
	zoo := layoutZoo()
	var zn []string
	for k := range zoo {
		zn = append(zn, k)
	}
	sort.Strings(zn)
	for _, k := range zn {
		inputs = append(inputs, input{"zoo:" + k, []byte(zoo[k])})
	}
	if b := readFile(repoDir() + "/gendst/data/positions.go"); b != nil {
		inputs = append(inputs, input{"repo:gendst/data/positions.go", b})
	}
	for _, p := range corpus.Sample(c.Rand("files"), c.Pick(60, 1500)) {
		src := readFile(p)
		if src == nil || len(src) > 60000 {
			continue
		}
		inputs = append(inputs, input{"file:" + corpus.Rel(p), src})
	}
	for i, in := range inputs {
		if !c.Mine(i) {
			continue
		}
		base, err := decorator.Parse(in.src)
		if err != nil {
			continue
		}
		bout, perr := printFile(base)
		if perr != "" {
			continue
		}
		bt, _ := obs.Scan([]byte(bout))
		baseTokens := obs.Syntax(bt)

		// (a) all at once
		c.Case(in.id+"/all", func() {
			f, _ := decorator.Parse(in.src)
			c04Accessors(c, in.id, f)
			ls := listStatements(f)
			rr := c.Rand(in.id)
			var sites []decSite
			k := 0
			decorateAll(f, func(n dst.Node, point string) string {
				k++
				kind := "block"
				text := fmt.Sprintf("/*#%d*/", k)
				_, isDecl := n.(dst.Decl)
				if (ls[n] || isDecl) && (point == "End" || point == "Start") {
					switch rr.Intn(6) {
					case 0:
						kind, text = "line", fmt.Sprintf("//#%d", k)
					case 1:
						if point == "Start" {
							kind, text = "line", fmt.Sprintf("//#%d", k)
						}
					}
				}
				sites = append(sites, decSite{n, point, text, kind})
				return text
			})
			c04Check(c, in.id, f, sites, baseTokens, string(in.src), "all")
			if i < 3 {
				c.Sample(map[string]interface{}{"case": in.id + "/all", "sites": len(sites)})
			}
		})

		// (a2) "hand-built" variant: a clone of the tree (no association with any decorator) with
		// every spacing set to None and every parsed decoration removed, then decorated on all points
		c.Case(in.id+"/handbuilt", func() {
			f0, _ := decorator.Parse(in.src)
			f := dst.Clone(f0).(*dst.File)
			dst.Inspect(f, func(n dst.Node) bool {
				if n == nil {
					return false
				}
				if nd := n.Decorations(); nd != nil {
					nd.Before, nd.After = dst.None, dst.None
				}
				forEachDecs(reflect.ValueOf(n).Elem().FieldByName("Decs"), func(name string, d *dst.Decorations) { *d = nil })
				return true
			})
			plain, perr := printFile(f)
			if perr != "" {
				c.Count("inconclusive_stripped_tree_does_not_print", 1)
				return
			}
			pt, _ := obs.Scan([]byte(plain))
			var sites []decSite
			k := 0
			decorateAll(f, func(n dst.Node, point string) string {
				k++
				text := fmt.Sprintf("/*#h%d*/", k)
				sites = append(sites, decSite{n, point, text, "block"})
				return text
			})
			c04Check(c, in.id, f, sites, obs.Syntax(pt), string(in.src), "handbuilt")
			c.Count("handbuilt_trees", 1)
		})

		// (b) one at a time
		c.Case(in.id+"/one", func() {
			f, _ := decorator.Parse(in.src)
			ls := listStatements(f)
			type slot struct {
				n     dst.Node
				point string
				d     *dst.Decorations
			}
			var slots []slot
			dst.Inspect(f, func(n dst.Node) bool {
				if n == nil {
					return false
				}
				forEachDecs(reflect.ValueOf(n).Elem().FieldByName("Decs"), func(name string, d *dst.Decorations) {
					slots = append(slots, slot{n, name, d})
				})
				return true
			})
			rr := c.Rand(in.id + "/one")
			nsites := c.Pick(25, 120)
			// sites are stratified by (node type, point): points this worker has not decorated
			// singly yet come first, so rarely used constructs get their turn
			var fresh []slot
			for _, sl := range slots {
				k := refl.TypeName(sl.n) + "." + sl.point
				if !c04SeenSingle[k] {
					c04SeenSingle[k] = true
					fresh = append(fresh, sl)
				}
			}
			for t := 0; t < nsites+len(fresh) && len(slots) > 0; t++ {
				s := slots[rr.Intn(len(slots))]
				if t < len(fresh) {
					s = fresh[t]
				}
				saved := *s.d
				kind, text := "block", fmt.Sprintf("/*#one%d*/", t)
				_, isDecl := s.n.(dst.Decl)
				if (ls[s.n] || isDecl) && (s.point == "Start" || s.point == "End") {
					switch rr.Intn(3) {
					case 0:
						kind, text = "line", fmt.Sprintf("//#one%d", t)
					case 1:
						kind, text = "newline", "\n"
					}
				}
				if rr.Intn(2) == 0 {
					*s.d = append(append(dst.Decorations{}, saved...), text)
				} else {
					*s.d = append(dst.Decorations{text}, saved...)
				}
				c04Check(c, in.id, f, []decSite{{s.n, s.point, text, kind}}, baseTokens, string(in.src), "one:"+kind)
				*s.d = saved
				c.Count("one_at_a_time_sites", 1)
			}
		})
	}

	// package-qualified identifiers under import management: the restorer renders them through a
	// hand-written expansion (identifier -> selector) with the points Start, X (after the dot) and End
	c04Qualified(c)

	// decorations on and around an import alias that the import manager has to rename
	c04AliasRename(c)

	// one caller-side slice (with and without spare capacity) handed to the list operations of
	// several nodes in turn: every node's comments are its own
	c04SharedArguments(c)

	// two decorated files restored by one FileRestorer and printed only afterwards: every comment
	// exactly once, in the output of its own file
	c04Reuse(c)

	// filled instances: accessor monitor on every node type with every point populated
	for i, t := range gen.NodeTypes() {
		if !c.Mine(i) {
			continue
		}
		c.Case("fill:"+t.Elem().Name(), func() {
			fl := &gen.Filler{}
			n := fl.Fill(t, 2)
			c04Accessors(c, "fill:"+t.Elem().Name(), n)
		})
	}
}

// c04Qualified decorates every point of every path-carrying identifier of import-resolved corpus
// files and checks hook / print exactly-once and the documented place of each point.
func c04Qualified(c *fw.Ctx) {
	files := corpus.Sample(c.Rand("qualified-files"), c.Pick(160, 2500))
	for i, p := range files {
		if !c.Mine(i) {
			continue
		}
		src := readFile(p)
		if src == nil || len(src) > 60000 || !bytes.Contains(src, []byte("import")) {
			continue
		}
		names, ok := corpus.ImportNames(src)
		if !ok {
			continue
		}
		id := "qualified:" + corpus.Rel(p)
		c.Case(id, func() {
			d := decorator.NewDecoratorWithImports(token.NewFileSet(), "example.com/self", goast.WithResolver(simple.New(names)))
			f, err := d.Parse(src)
			if err != nil {
				return
			}
			type site struct{ s, x, e string }
			var sites []site
			k := 0
			dst.Inspect(f, func(n dst.Node) bool {
				if idn, ok := n.(*dst.Ident); ok && idn.Path != "" {
					k++
					st := site{fmt.Sprintf("/*q%dS*/", k), fmt.Sprintf("/*q%dX*/", k), fmt.Sprintf("/*q%dE*/", k)}
					idn.Decs.Start.Append(st.s)
					idn.Decs.X.Append(st.x)
					idn.Decs.End.Append(st.e)
					sites = append(sites, st)
				}
				return true
			})
			if len(sites) == 0 {
				return
			}
			c04HookMu.Lock()
			hook := map[string]int{}
			verifhook.Set(&verifhook.Handler{Dec: func(nodeType, point, text string, cursor, cnl int) { hook[text]++ }})
			var buf bytes.Buffer
			var perr error
			sig, detail := fw.Try(func() { perr = decorator.NewRestorerWithImports("example.com/self", simple.New(names)).Fprint(&buf, f) })
			verifhook.Set(nil)
			c04HookMu.Unlock()
			if sig != "" {
				c.Violate("restore-failed", sig, id+" [qualified]\n"+detail, string(src))
				return
			}
			if perr != nil {
				c.Count("inconclusive_qualified_restore_error", 1)
				return
			}
			toks, _ := obs.Scan(buf.Bytes())
			occ := map[string]int{}
			at := map[string]int{}
			for ti, t := range toks {
				if t.Tok == token.COMMENT {
					occ[t.Lit]++
					at[t.Lit] = ti
				}
			}
			viol := func(rule, sig, detail string) {
				c.Violate(rule, sig, id+" [qualified]: "+detail, string(src))
			}
			// between(a, b) lists the tokens strictly between two token indices, comments dropped
			between := func(a, b int) []token.Token {
				var out []token.Token
				for k := a + 1; k < b && k < len(toks); k++ {
					if toks[k].Tok != token.COMMENT {
						out = append(out, toks[k].Tok)
					}
				}
				return out
			}
			// tokens for which the ast records no position of their own: go/printer emits them
			// before flushing a comment that follows the previous operand
			unpositioned := map[token.Token]bool{token.COMMA: true, token.SEMICOLON: true, token.PERIOD: true, token.RBRACK: true, token.ASSIGN: true, token.COLON: true}
			for _, st := range sites {
				for _, pt := range []struct{ point, text string }{{"Start", st.s}, {"X", st.x}, {"End", st.e}} {
					if hook[pt.text] != 1 {
						viol("hook-exactly-once", "hook-exactly-once:Ident(qualified)."+pt.point, fmt.Sprintf("decoration %q was applied %d times by the restorer", pt.text, hook[pt.text]))
						return
					}
					if occ[pt.text] != 1 {
						viol("print-exactly-once", "print-exactly-once:Ident(qualified)."+pt.point, fmt.Sprintf("comment %q occurs %d times in the output", pt.text, occ[pt.text]))
						return
					}
				}
				// documented places: Start, qualifier, ".", X, name, End
				is, ix, ie := at[st.s], at[st.x], at[st.e]
				okPlace := is < ix && ix < ie
				if okPlace {
					sx := between(is, ix) // [unpositioned...] IDENT PERIOD
					for len(sx) > 0 && (sx[0] == token.COMMA || sx[0] == token.SEMICOLON) {
						sx = sx[1:]
					}
					okPlace = len(sx) == 2 && sx[0] == token.IDENT && sx[1] == token.PERIOD
				}
				if okPlace {
					xe := between(ix, ie) // IDENT [unpositioned]
					okPlace = len(xe) >= 1 && xe[0] == token.IDENT && len(xe) <= 2 && (len(xe) == 1 || unpositioned[xe[1]])
				}
				if !okPlace {
					viol("placement", "placement:Ident(qualified)", fmt.Sprintf("points of one qualified identifier are printed as tokens #%d (Start) #%d (X) #%d (End); want Start, qualifier, dot, X, name, End in this order with nothing but unpositioned punctuation in between", is, ix, ie))
					return
				}
				c.Count("qualified_points_checked", 3)
			}
			c.Observe("type_points", "Ident(qualified).Start")
			c.Observe("type_points", "Ident(qualified).X")
			c.Observe("type_points", "Ident(qualified).End")
			c.Nontrivial(id)
		})
	}
}

func c04Reuse(c *fw.Ctx) {
	files := corpus.Sample(c.Rand("reuse-files"), c.Pick(80, 1200))
	for i := 0; i+1 < len(files); i += 2 {
		if !c.Mine(i / 2) {
			continue
		}
		pa, pb := files[i], files[i+1]
		id := "reuse:" + corpus.Rel(pa) + "+" + corpus.Rel(pb)
		c.Case(id, func() {
			fr := decorator.NewRestorer().FileRestorer()
			type one struct {
				af    *ast.File
				texts map[string]bool
				src   string
			}
			var rs []one
			for k, p := range []string{pa, pb} {
				src := readFile(p)
				if src == nil || len(src) > 60000 {
					return
				}
				f, err := decorator.Parse(src)
				if err != nil {
					return
				}
				texts := map[string]bool{}
				n := 0
				decorateAll(f, func(nd dst.Node, point string) string {
					n++
					if n%5 != 0 {
						return ""
					}
					t := fmt.Sprintf("/*r%d.%d*/", k, n)
					texts[t] = true
					return t
				})
				var af *ast.File
				if sig, detail := fw.Try(func() { af, err = fr.RestoreFile(f) }); sig != "" {
					c.Violate("restore-failed", sig, id+" [file-restorer-reused]\n"+detail, string(src))
					return
				}
				if err != nil {
					return
				}
				rs = append(rs, one{af, texts, string(src)})
			}
			for k, r := range rs {
				var buf bytes.Buffer
				if err := format.Node(&buf, fr.Fset, r.af); err != nil {
					c.Violate("print-failed", "print-failed:file-restorer-reused", fmt.Sprintf("%s file #%d: %v", id, k, err), r.src)
					return
				}
				toks, _ := obs.Scan(buf.Bytes())
				occ := map[string]int{}
				for _, t := range toks {
					if t.Tok == token.COMMENT {
						occ[t.Lit]++
					}
				}
				for t := range r.texts {
					if occ[t] != 1 {
						c.Violate("print-exactly-once", "print-exactly-once:file-restorer-reused", fmt.Sprintf("%s: comment %q of file #%d occurs %d times in that file's output (printed after both files were restored)", id, t, k, occ[t]), r.src)
						return
					}
				}
				for t := range rs[1-k].texts {
					if occ[t] != 0 {
						c.Violate("print-exactly-once", "print-exactly-once:foreign-comment", fmt.Sprintf("%s: comment %q of file #%d is printed in the output of file #%d", id, t, 1-k, k), r.src)
						return
					}
				}
				c.Count("reuse_comments_checked", int64(len(r.texts)))
			}
			c.Nontrivial(id)
		})
	}
}

// c04AliasRename: an aliased import spec whose alias identifier and spec points carry decorations;
// the import manager changes the alias (an override in FileRestorer.Alias, or a newly referenced
// package that claims the alias as its name). Every comment must still be printed exactly once.
func c04AliasRename(c *fw.Ctx) {
	if c.Shard != 0 {
		return
	}
	names := map[string]string{"example.com/x/foo": "foo", "example.com/y/bar": "bar", "example.com/z/f1": "f1", "example.com/z/b1": "b1"}
	srcs := map[string]string{
		"grouped":   "package p\n\nimport (\n\tf1 \"example.com/x/foo\"\n\tb1 \"example.com/y/bar\"\n)\n\nfunc f() {\n\tf1.A()\n\tb1.B()\n}\n",
		"ungrouped": "package p\n\nimport f1 \"example.com/x/foo\"\nimport b1 \"example.com/y/bar\"\n\nfunc f() {\n\tf1.A()\n\tb1.B()\n}\n",
		"single":    "package p\n\nimport f1 \"example.com/x/foo\"\n\nfunc f() {\n\tf1.A()\n}\n",
	}
	for _, shape := range []string{"grouped", "single", "ungrouped"} {
		for target := 0; target < 2; target++ {
			if shape == "single" && target == 1 {
				continue
			}
			for _, mode := range []string{"none", "override", "override-all", "conflict"} {
				for mask := 1; mask < 32; mask++ {
					id := fmt.Sprintf("alias-rename:%s/%d/%s/%d", shape, target, mode, mask)
					c.Case(id, func() {
						d := decorator.NewDecoratorWithImports(token.NewFileSet(), "example.com/self", goast.WithResolver(simple.New(names)))
						f, err := d.Parse(srcs[shape])
						if err != nil {
							return
						}
						var specs []*dst.ImportSpec
						dst.Inspect(f, func(n dst.Node) bool {
							if is, ok := n.(*dst.ImportSpec); ok {
								specs = append(specs, is)
							}
							return true
						})
						if target >= len(specs) || specs[target].Name == nil {
							return
						}
						sp := specs[target]
						points := []struct {
							name string
							at   *dst.Decorations
						}{{"ImportSpec.Start", &sp.Decs.Start}, {"Ident(alias).Start", &sp.Name.Decs.Start}, {"Ident(alias).End", &sp.Name.Decs.End}, {"ImportSpec.Name", &sp.Decs.Name}, {"ImportSpec.End", &sp.Decs.End}}
						texts := map[string]string{}
						for k, pt := range points {
							if mask&(1<<uint(k)) != 0 {
								t := fmt.Sprintf("/*al%d*/", k)
								pt.at.Append(t)
								texts[t] = pt.name
							}
						}
						path := []string{"example.com/x/foo", "example.com/y/bar"}[target]
						old := sp.Name.Name
						fr := decorator.NewRestorerWithImports("example.com/self", simple.New(names)).FileRestorer()
						switch mode {
						case "override":
							fr.Alias[path] = "renamed"
						case "override-all":
							fr.Alias["example.com/x/foo"] = "r1"
							fr.Alias["example.com/y/bar"] = "r2"
						case "conflict":
							body := f.Decls[len(f.Decls)-1].(*dst.FuncDecl).Body
							body.List = append(body.List, &dst.ExprStmt{X: &dst.CallExpr{Fun: &dst.Ident{Name: "C", Path: "example.com/z/" + old}}})
						}
						var buf bytes.Buffer
						var perr error
						if sig, detail := fw.Try(func() { perr = fr.Fprint(&buf, f) }); sig != "" {
							c.Violate("restore-failed", sig, id+"\n"+detail, srcs[shape])
							return
						}
						if perr != nil {
							c.Count("inconclusive_alias_restore_error", 1)
							return
						}
						c.Count("alias_rename_cases", 1)
						if sp.Name != nil && sp.Name.Name != old {
							c.Count("alias_actually_renamed", 1)
							c.Nontrivial(id)
						}
						toks, _ := obs.Scan(buf.Bytes())
						occ := map[string]int{}
						for _, t := range toks {
							if t.Tok == token.COMMENT {
								occ[t.Lit]++
							}
						}
						for t, pt := range texts {
							if occ[t] != 1 {
								c.Violate("print-exactly-once", "print-exactly-once:"+pt+":alias-"+mode, fmt.Sprintf("%s: comment %q at %s occurs %d times in the output\n%s", id, t, pt, occ[t], buf.String()), srcs[shape])
								return
							}
						}
					})
				}
			}
		}
	}
}

// c04SharedArguments assigns decorations through Append / Prepend / Replace with one argument slice
// that is re-used (and re-filled) for node after node; afterwards every comment must be printed
// exactly once and the accessor must show each node's own list.
func c04SharedArguments(c *fw.Ctx) {
	if c.Shard != 0 {
		return
	}
	const nf = 5
	src := "package p\n"
	for k := 0; k < nf; k++ {
		src += fmt.Sprintf("\n// doc %d\nfunc f%d() {\n\tg%d() // call %d\n}\n", k, k, k, k)
	}
	for _, op := range []string{"Prepend", "Append", "Replace", "Prepend-then-Append"} {
		for _, shape := range []string{"spare-capacity", "exact", "sub-slice", "refilled"} {
			id := "shared-arguments:" + op + "/" + shape
			c.Case(id, func() {
				f, err := decorator.Parse(src)
				if err != nil {
					panic(err)
				}
				mk := func() []string {
					switch shape {
					case "spare-capacity":
						b := make([]string, 0, 8)
						return append(b, "", "")
					case "sub-slice":
						big := []string{"", "", "// not part of the argument", "// nor this"}
						return big[:2]
					}
					return []string{"", ""}
				}
				arg := mk()
				want := map[*dst.FuncDecl][]string{}
				all := map[string]int{}
				for k, d := range f.Decls {
					fd := d.(*dst.FuncDecl)
					if shape != "refilled" && shape != "spare-capacity" && shape != "sub-slice" {
						arg = mk()
					}
					arg[0], arg[1] = fmt.Sprintf("// banner %d a", k), fmt.Sprintf("// banner %d b", k)
					doc := fmt.Sprintf("// doc %d", k)
					switch op {
					case "Prepend":
						fd.Decs.Start.Prepend(arg...)
						want[fd] = []string{arg[0], arg[1], doc}
					case "Append":
						fd.Decs.Start.Append(arg...)
						want[fd] = []string{doc, arg[0], arg[1]}
					case "Replace":
						fd.Decs.Start.Replace(arg...)
						want[fd] = []string{arg[0], arg[1]}
					default:
						fd.Decs.Start.Prepend(arg...)
						fd.Decs.Start.Append(arg[:1]...)
						want[fd] = []string{arg[0], arg[1], doc, arg[0]}
					}
					for _, t := range want[fd] {
						all[t]++
					}
					all[fmt.Sprintf("// call %d", k)]++
				}
				for k, d := range f.Decls {
					fd := d.(*dst.FuncDecl)
					got := []string{}
					for _, t := range fd.Decorations().Start.All() {
						if t != "\n" {
							got = append(got, t)
						}
					}
					if !sameList(got, want[fd]) {
						c.Violate("accessor-own-storage", "accessor-own-storage:"+op+":"+shape, fmt.Sprintf("%s: f%d: Start holds %q after all assignments, want %q", id, k, got, want[fd]), src)
						return
					}
				}
				var buf bytes.Buffer
				if err := decorator.Fprint(&buf, f); err != nil {
					c.Violate("print-failed", "print-failed:shared-arguments", id+": "+err.Error(), src)
					return
				}
				toks, _ := obs.Scan(buf.Bytes())
				occ := map[string]int{}
				for _, t := range toks {
					if t.Tok == token.COMMENT {
						occ[t.Lit]++
					}
				}
				for t, n := range all {
					if occ[t] != n {
						c.Violate("print-exactly-once", "print-exactly-once:shared-arguments:"+op+":"+shape, fmt.Sprintf("%s: comment %q assigned %d time(s), printed %d time(s)\n%s", id, t, n, occ[t], buf.String()), src)
						return
					}
				}
				for t, n := range occ {
					if all[t] == 0 {
						c.Violate("print-exactly-once", "print-exactly-once:shared-arguments:extra:"+op+":"+shape, fmt.Sprintf("%s: comment %q printed %d time(s) but never assigned", id, t, n), src)
						return
					}
				}
				c.Count("shared_argument_cases", 1)
				c.Nontrivial(id)
			})
		}
	}
}
