// Package props holds one monitored workload per property.
package props

import (
	"bytes"
	"fmt"
	"go/ast"
	"go/format"
	"go/parser"
	"go/token"
	"os"
	"reflect"
	"regexp"
	"sort"
	"strings"

	"github.com/dave/dst"
	"github.com/dave/dst/decorator"
)

// ---- entry points -------------------------------------------------------------------------

// rtParsePrint: decorator.Parse + decorator.Fprint.
func rtParsePrint(src []byte) ([]byte, error) {
	f, err := decorator.Parse(src)
	if err != nil {
		return nil, err
	}
	var buf bytes.Buffer
	if err := decorator.Fprint(&buf, f); err != nil {
		return nil, err
	}
	return buf.Bytes(), nil
}

// sharedSets is a pair of caller-owned file sets that accumulate files across calls (non-zero
// bases on both the decorate and the restore side).
type sharedSets struct {
	parse   *token.FileSet
	restore *token.FileSet
	n       int
}

func newSharedSets() *sharedSets {
	s := &sharedSets{parse: token.NewFileSet(), restore: token.NewFileSet()}
	s.parse.AddFile("pad.go", -1, 1234)
	s.restore.AddFile("pad.go", -1, 4321)
	return s
}

// rtExplicit: parser.ParseFile into a caller file set, explicit Decorator, explicit Restorer on a
// caller file set, format.Node.
func (s *sharedSets) rtExplicit(name string, src []byte) ([]byte, error) {
	s.n++
	if s.n > 200 { // keep the sets from growing without bound
		*s = *newSharedSets()
	}
	af, err := parser.ParseFile(s.parse, name, src, parser.ParseComments)
	if err != nil {
		return nil, err
	}
	d := decorator.NewDecorator(s.parse)
	df, err := d.DecorateFile(af)
	if err != nil {
		return nil, err
	}
	r := decorator.NewRestorer()
	r.Fset = s.restore
	rf, err := r.RestoreFile(df)
	if err != nil {
		return nil, err
	}
	var buf bytes.Buffer
	if err := format.Node(&buf, s.restore, rf); err != nil {
		return nil, err
	}
	return buf.Bytes(), nil
}

// rtParseFile: decorator.ParseFile with a file name + Restorer.Fprint.
func rtParseFile(name string, src []byte) ([]byte, error) {
	fset := token.NewFileSet()
	f, err := decorator.ParseFile(fset, name, src, 0)
	if err != nil {
		return nil, err
	}
	var buf bytes.Buffer
	if err := decorator.NewRestorer().Fprint(&buf, f); err != nil {
		return nil, err
	}
	return buf.Bytes(), nil
}

// rtDecoratorParse: Decorator.Parse + FileRestorer.Fprint.
func rtDecoratorParse(src []byte) ([]byte, error) {
	d := decorator.NewDecorator(nil)
	f, err := d.Parse(string(src))
	if err != nil {
		return nil, err
	}
	var buf bytes.Buffer
	fr := decorator.NewRestorer().FileRestorer()
	fr.Name = "x.go"
	if err := fr.Fprint(&buf, f); err != nil {
		return nil, err
	}
	return buf.Bytes(), nil
}

// ---- syntactic predicates for root-cause signatures ---------------------------------------

// a //line directive in column 1 whose next non-blank line is indented: go/printer keeps such a
// comment in column 1 only when its recorded position has column 1, which a restored tree cannot
// know (dst does not record comment indentation).
// a generic alias declaration: type A[P any] = ... (the restorer orders '=' before '[')
var genericAliasDecl = regexp.MustCompile(`(?m)^\s*(type\s+)?[A-Za-z_]\w*(\s*/\*[^\n]*\*/)*\s*\[[^\]\n]*\]\s*=[^=]`)

var lineDirective = regexp.MustCompile(`(?m)^//line [^\n]*\n+\t`)

// textPredicates evaluates a fixed list of dst-independent predicates on an input.
func textPredicates(src []byte) []string {
	var ps []string
	if genericAliasDecl.Match(src) {
		ps = append(ps, "generic-type-alias")
	}
	if bytes.Contains(src, []byte("\r\n")) {
		ps = append(ps, "crlf")
	}
	if regexp.MustCompile(`(?m)^[ \t]+$`).Match(src) {
		ps = append(ps, "whitespace-only-line")
	}
	if dupImport(src) {
		ps = append(ps, "duplicate-import-path")
	}
	if bytes.HasPrefix(src, []byte("\xef\xbb\xbf")) {
		ps = append(ps, "bom")
	}
	sort.Strings(ps)
	return ps
}

func dupImport(src []byte) bool {
	f, err := parser.ParseFile(token.NewFileSet(), "", src, parser.ImportsOnly)
	if err != nil || f == nil {
		return false
	}
	seen := map[string]bool{}
	for _, im := range f.Imports {
		if seen[im.Path.Value] {
			return true
		}
		seen[im.Path.Value] = true
	}
	return false
}

func sigOf(rule string, preds []string) string {
	if len(preds) == 0 {
		return rule + ":unclassified"
	}
	return rule + ":" + strings.Join(preds, "+")
}

// ---- misc ---------------------------------------------------------------------------------

func readFile(p string) []byte {
	b, err := os.ReadFile(p)
	if err != nil {
		return nil
	}
	return b
}

func typeName(n interface{}) string {
	if n == nil {
		return "nil"
	}
	t := reflect.TypeOf(n)
	for t.Kind() == reflect.Ptr {
		t = t.Elem()
	}
	return t.Name()
}

// observeTree records node types and (type, point) pairs holding decorations.
func observeTree(f dst.Node, types map[string]bool, points map[string]bool) {
	dst.Inspect(f, func(n dst.Node) bool {
		if n == nil {
			return false
		}
		tn := typeName(n)
		types[tn] = true
		if points != nil {
			v := reflect.ValueOf(n).Elem().FieldByName("Decs")
			if v.IsValid() {
				forEachDecs(v, func(name string, d *dst.Decorations) {
					if len(*d) > 0 {
						points[tn+"."+name] = true
					}
				})
			}
		}
		return true
	})
}

var decorationsType = reflect.TypeOf(dst.Decorations{})

// forEachDecs calls fn for every Decorations field of a Decs struct value (NodeDecs Start first,
// then the named points in struct order, End last).
func forEachDecs(decs reflect.Value, fn func(name string, d *dst.Decorations)) {
	nd := decs.FieldByName("NodeDecs")
	if nd.IsValid() {
		fn("Start", nd.FieldByName("Start").Addr().Interface().(*dst.Decorations))
	}
	for i := 0; i < decs.NumField(); i++ {
		fl := decs.Field(i)
		if fl.Type() == decorationsType {
			fn(decs.Type().Field(i).Name, fl.Addr().Interface().(*dst.Decorations))
		}
	}
	if nd.IsValid() {
		fn("End", nd.FieldByName("End").Addr().Interface().(*dst.Decorations))
	}
}

func hasCommentAndBlank(src []byte) bool {
	return (bytes.Contains(src, []byte("//")) || bytes.Contains(src, []byte("/*"))) && bytes.Contains(src, []byte("\n\n"))
}

func shortErr(err error) string {
	s := fmt.Sprint(err)
	if len(s) > 300 {
		s = s[:300]
	}
	return s
}

var _ = ast.Inspect

func sortStrings(s []string) { sort.Strings(s) }

// decorateAll appends mk(node, point) to every decoration point of every node of the tree
// (points found by reflection over each node's Decs struct). An empty string skips the point.
func decorateAll(root dst.Node, mk func(n dst.Node, point string) string) int {
	count := 0
	dst.Inspect(root, func(n dst.Node) bool {
		if n == nil {
			return false
		}
		v := reflect.ValueOf(n).Elem().FieldByName("Decs")
		if !v.IsValid() {
			return true
		}
		forEachDecs(v, func(name string, d *dst.Decorations) {
			if s := mk(n, name); s != "" {
				*d = append(*d, s)
				count++
			}
		})
		return true
	})
	return count
}

// extraSnippets are small hand-written sources that contain the constructs the corpus sample may
// miss (EmptyStmt, labels, generics, every literal kind, Bad nodes). Values that do not parse
// cleanly are marked by a name starting with "bad:".
func extraSnippets() map[string]string {
	return map[string]string{
		"empty-result-lists": "package p\n\nfunc f() () {}\n\ntype T func(int) ()\n\nvar g = func() () { return }\n\ntype I interface {\n\tM() ()\n}\n",
		// names of imports in unusual roles: parenthesised as a selector operand (parses, does not
		// type-check), shadowed by a parameter, a local variable and a package-level declaration
		"import-names": "package p\n\nimport (\n\t\"fmt\"\n\t\"net/url\"\n\t\"os\"\n\t\"strings\"\n)\n\ntype loc struct{ Host string }\n\nfunc host(url *loc) string { return url.Host }\n\nfunc f() {\n\t(fmt).Println(\"b\")\n\tfmt.Println((os).Args, url.PathEscape(\"x\"))\n\tstrings := loc{}\n\t_ = strings.Host\n\t{\n\t\tos := &strings\n\t\t_ = os.Host\n\t}\n}\n",
		// an import block that gofmt would sort (a path imported twice is left out: go/format drops
		// the second spec only when it carries no comment, so prints with and without decorations differ by design)
		"unsorted-imports": "package p\n\nimport (\n\t\"os\"\n\t\"fmt\"\n\t\"unicode\"\n\t\"bytes\"\n)\n\nimport \"strings\"\n\nvar _ = fmt.Sprint(os.Args, bytes.MinRead, strings.ToUpper, unicode.MaxRune)\n",
		// package-level objects with names that are special elsewhere (a variable called init is
		// declared in the file scope, a function called init is not; main, len and nil as ordinary names)
		"scope-names": "package p\n\nvar init = 0\n\nconst zero, main = iota, 1\n\ntype len struct{ nil int }\n\nfunc get() int { return init + main }\n\nfunc init() {}\n\nfunc _() {}\n\nvar _ = get\n",
		"type-aliases": "package p\n\ntype A = B\n\ntype (\n\tC = []int\n\tD = map[string]A\n\tE = func(A) C\n)\n\nfunc f() {\n\ttype local = struct{ x int }\n\tvar _ local\n}\n",
		"type-literals-in-lists": "package p\n\nfunc f(x interface{}) {\n\tswitch x.(type) {\n\tcase int, interface{ M() }, struct{ a int }, func(int) error, chan int, map[string]int, []int, *T:\n\t}\n\t_ = new(interface{})\n\t_ = G[int, interface{ N() }]{}\n\tg(chan<- int(nil), (<-chan int)(nil), [...]int{1}, x.(interface{ M() }))\n\tfor a[0] = range m {\n\t}\n\tfor s.k, s.v = range m {\n\t}\n\tfor k = range c {\n\t}\n\t_ = s[1:2:3]\n}\n",
		"list-elements": "package p\n\nimport \"io\"\n\nvar readers = []io.Reader{\n\tsrc.(io.Reader), // primary\n\talt.(io.Reader), /* secondary */\n\t(last),\n}\n\nvar sums = []int{\n\t(1 + 2),\n\t3,\n\t(4 * 5),\n}\n\nfunc f() {\n\tg(\n\t\ta.(T), // first\n\t\t(b),\n\t)\n\tresults := make(\n\t\tchan result, workers*2)\n\t_ = results\n\tgoto L\nL:\n\tio.Copy(w, r)\n}\n",
		"empty-stmt":   "package p\n\nfunc f() {\n\t;\n\tfor {\n\t\t;\n\t}\nL:\n\t;\n\tgoto L\n}\n",
		"generics":     "package p\n\ntype S[T any, U comparable] struct {\n\ta T\n\tb map[U][]T\n}\n\nfunc F[T ~int | ~string, U any](x T, y ...U) (r T) {\n\tvar s S[T, int]\n\t_ = s\n\treturn G[T, U](x)\n}\n",
		"literals":     "package p\n\nvar (\n\ta = 1\n\tb = 1.5e3\n\tc = 'x'\n\td = \"s\"\n\te = `raw\nstring`\n\tf = 2i\n\tg = [...]int{1, 2: 3}\n\th = map[string]struct{ X, Y int }{\"k\": {1, 2}}\n\ti = func(x int) (y int) { return x }\n\tj = <-ch\n\tk = (*T)(nil)\n\tl = x.(type1)\n\tm = s[1:2:3]\n\tn = &T{A: 1}\n)\n",
		"statements":   "package p\n\nfunc f(ch chan<- int, in <-chan int) {\n\tdefer g()\n\tgo g()\n\tch <- 1\n\ti++\n\tselect {\n\tcase v, ok := <-in:\n\t\t_, _ = v, ok\n\tcase ch <- 2:\n\tdefault:\n\t}\n\tswitch x := y.(type) {\n\tcase int, string:\n\t\t_ = x\n\tdefault:\n\t}\n\tswitch {\n\tcase a > b:\n\t\tfallthrough\n\tdefault:\n\t}\n\tfor i := 0; i < 10; i++ {\n\t\tcontinue\n\t}\n\tfor k, v := range m {\n\t\t_, _ = k, v\n\t}\n\tfor range ch2 {\n\t\tbreak\n\t}\n\tif x := 1; x > 0 {\n\t} else if y {\n\t} else {\n\t}\n\tvar z int\n\tconst c = iota\n\ttype T int\n\t{\n\t\treturn\n\t}\n}\n",
		"interfaces":   "package p\n\ntype I interface {\n\tM(x int) error\n\tE\n\t~int | string\n}\n\ntype C chan int\ntype A = B\ntype F func(a, b int, c ...string) (x, y int)\n",
		"bad:decl":     "package p\n\nvar x = 1\n\n}}} bad\n\nfunc g() {}\n",
		"bad:stmt":     "package p\n\nfunc f() {\n\tx := 1\n\t) ) bad\n\ty := 2\n}\n",
		"bad:expr":     "package p\n\nfunc f() {\n\tx := 1 + \n}\n\nvar y = [}\n",
		"cgo":          "package p\n\n/*\n#include <stdio.h>\n*/\nimport \"C\"\n\nimport (\n\t\"fmt\"\n\t_ \"embed\"\n\tm \"math\"\n)\n\nfunc f() {\n\tfmt.Println(m.Pi, C.int(1))\n}\n",
		"comments":     "// Copyright\n\n//go:build linux\n\n// Package p doc.\npackage p // trailing\n\n// Doc of f.\nfunc f( /* a */ x int /* b */) { // open\n\t// inside\n\tg() // after g\n\n\t/* block */\n\n\t// hanging\n}\n\n// trailing file comment\n",
	}
}

func repoDir() string {
	if d := os.Getenv("VERIF_REPO"); d != "" {
		return d
	}
	return "/repo"
}
