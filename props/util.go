// Package props holds one monitored workload per property.
package props

import (
	"bytes"
	"fmt"
	"go/ast"
	"go/format"
	"go/parser"
	"go/token"
	"os"
	"reflect"
	"regexp"
	"sort"
	"strings"

	"github.com/dave/dst"
	"github.com/dave/dst/decorator"
)

// ---- entry points -------------------------------------------------------------------------

// rtParsePrint: decorator.Parse + decorator.Fprint.
func rtParsePrint(src []byte) ([]byte, error) {
	f, err := decorator.Parse(src)
	if err != nil {
		return nil, err
	}
	var buf bytes.Buffer
	if err := decorator.Fprint(&buf, f); err != nil {
		return nil, err
	}
	return buf.Bytes(), nil
}

// sharedSets is a pair of caller-owned file sets that accumulate files across calls (non-zero
// bases on both the decorate and the restore side).
type sharedSets struct {
	parse   *token.FileSet
	restore *token.FileSet
	n       int
}

func newSharedSets() *sharedSets {
	s := &sharedSets{parse: token.NewFileSet(), restore: token.NewFileSet()}
	s.parse.AddFile("pad.go", -1, 1234)
	s.restore.AddFile("pad.go", -1, 4321)
	return s
}

// rtExplicit: parser.ParseFile into a caller file set, explicit Decorator, explicit Restorer on a
// caller file set, format.Node.
func (s *sharedSets) rtExplicit(name string, src []byte) ([]byte, error) {
	s.n++
	if s.n > 200 { // keep the sets from growing without bound
		*s = *newSharedSets()
	}
	af, err := parser.ParseFile(s.parse, name, src, parser.ParseComments)
	if err != nil {
		return nil, err
	}
	d := decorator.NewDecorator(s.parse)
	df, err := d.DecorateFile(af)
	if err != nil {
		return nil, err
	}
	r := decorator.NewRestorer()
	r.Fset = s.restore
	rf, err := r.RestoreFile(df)
	if err != nil {
		return nil, err
	}
	var buf bytes.Buffer
	if err := format.Node(&buf, s.restore, rf); err != nil {
		return nil, err
	}
	return buf.Bytes(), nil
}

// rtParseFile: decorator.ParseFile with a file name + Restorer.Fprint.
func rtParseFile(name string, src []byte) ([]byte, error) {
	fset := token.NewFileSet()
	f, err := decorator.ParseFile(fset, name, src, 0)
	if err != nil {
		return nil, err
	}
	var buf bytes.Buffer
	if err := decorator.NewRestorer().Fprint(&buf, f); err != nil {
		return nil, err
	}
	return buf.Bytes(), nil
}

// rtDecoratorParse: Decorator.Parse + FileRestorer.Fprint.
func rtDecoratorParse(src []byte) ([]byte, error) {
	d := decorator.NewDecorator(nil)
	f, err := d.Parse(string(src))
	if err != nil {
		return nil, err
	}
	var buf bytes.Buffer
	fr := decorator.NewRestorer().FileRestorer()
	fr.Name = "x.go"
	if err := fr.Fprint(&buf, f); err != nil {
		return nil, err
	}
	return buf.Bytes(), nil
}

// ---- syntactic predicates for root-cause signatures ---------------------------------------

// a //line directive in column 1 whose next non-blank line is indented: go/printer keeps such a
// comment in column 1 only when its recorded position has column 1, which a restored tree cannot
// know (dst does not record comment indentation).
var lineDirective = regexp.MustCompile(`(?m)^//line [^\n]*\n+\t`)

// textPredicates evaluates a fixed list of dst-independent predicates on an input.
func textPredicates(src []byte) []string {
	var ps []string
	if lineDirective.Match(src) {
		ps = append(ps, "line-directive-col1-in-indented-code")
	}
	if bytes.Contains(src, []byte("\r\n")) {
		ps = append(ps, "crlf")
	}
	if regexp.MustCompile(`(?m)^[ \t]+$`).Match(src) {
		ps = append(ps, "whitespace-only-line")
	}
	if dupImport(src) {
		ps = append(ps, "duplicate-import-path")
	}
	if bytes.HasPrefix(src, []byte("\xef\xbb\xbf")) {
		ps = append(ps, "bom")
	}
	sort.Strings(ps)
	return ps
}

func dupImport(src []byte) bool {
	f, err := parser.ParseFile(token.NewFileSet(), "", src, parser.ImportsOnly)
	if err != nil || f == nil {
		return false
	}
	seen := map[string]bool{}
	for _, im := range f.Imports {
		if seen[im.Path.Value] {
			return true
		}
		seen[im.Path.Value] = true
	}
	return false
}

func sigOf(rule string, preds []string) string {
	if len(preds) == 0 {
		return rule + ":unclassified"
	}
	return rule + ":" + strings.Join(preds, "+")
}

// ---- misc ---------------------------------------------------------------------------------

func readFile(p string) []byte {
	b, err := os.ReadFile(p)
	if err != nil {
		return nil
	}
	return b
}

func typeName(n interface{}) string {
	if n == nil {
		return "nil"
	}
	t := reflect.TypeOf(n)
	for t.Kind() == reflect.Ptr {
		t = t.Elem()
	}
	return t.Name()
}

// observeTree records node types and (type, point) pairs holding decorations.
func observeTree(f dst.Node, types map[string]bool, points map[string]bool) {
	dst.Inspect(f, func(n dst.Node) bool {
		if n == nil {
			return false
		}
		tn := typeName(n)
		types[tn] = true
		if points != nil {
			v := reflect.ValueOf(n).Elem().FieldByName("Decs")
			if v.IsValid() {
				forEachDecs(v, func(name string, d *dst.Decorations) {
					if len(*d) > 0 {
						points[tn+"."+name] = true
					}
				})
			}
		}
		return true
	})
}

var decorationsType = reflect.TypeOf(dst.Decorations{})

// forEachDecs calls fn for every Decorations field of a Decs struct value (NodeDecs Start first,
// then the named points in struct order, End last).
func forEachDecs(decs reflect.Value, fn func(name string, d *dst.Decorations)) {
	nd := decs.FieldByName("NodeDecs")
	if nd.IsValid() {
		fn("Start", nd.FieldByName("Start").Addr().Interface().(*dst.Decorations))
	}
	for i := 0; i < decs.NumField(); i++ {
		fl := decs.Field(i)
		if fl.Type() == decorationsType {
			fn(decs.Type().Field(i).Name, fl.Addr().Interface().(*dst.Decorations))
		}
	}
	if nd.IsValid() {
		fn("End", nd.FieldByName("End").Addr().Interface().(*dst.Decorations))
	}
}

func hasCommentAndBlank(src []byte) bool {
	return (bytes.Contains(src, []byte("//")) || bytes.Contains(src, []byte("/*"))) && bytes.Contains(src, []byte("\n\n"))
}

func shortErr(err error) string {
	s := fmt.Sprint(err)
	if len(s) > 300 {
		s = s[:300]
	}
	return s
}

var _ = ast.Inspect
