package props

import (
	"bytes"
	"fmt"
	"github.com/dave/dst/decorator/resolver/goast"
	"github.com/dave/dst/decorator/resolver/simple"
	"go/token"
	"math/rand"
	"reflect"
	"regexp"
	"strings"

	"github.com/dave/dst"
	"github.com/dave/dst/decorator"

	"verif/internal/fw"
	"verif/internal/gen"
	"verif/internal/obs"
)

func init() {
	fw.Register(&fw.Check{
		ID:    "C02",
		Level: "exploration",
		Rule: "cases: seeded (layout, history) pairs. A layout is a file with two sibling lists A and B of one of 9 kinds (block statements, file declarations, value specs, struct fields, " +
			"interface methods, composite-literal elements, call arguments, case clauses, import specs), 1-8 elements each, every element with 0-2 directly preceding comment lines, an " +
			"optional trailing same-line comment and an optional inner block comment (all carrying the element's unique tag), separated uniformly by one newline or by one blank line. The " +
			"text is canonicalised with gofmt (gofmt-idempotent layouts only; blank-line layouts only where gofmt keeps the blank line at both delimiters) and the chunks are cut from the " +
			"canonical text by tag. A history is 1-6 edits from {swap, rotate, reverse, delete, duplicate with dst.Clone, move A->B, move B->A}. Oracle: print(apply(history, decorate(src))) " +
			"== gofmt(text with the same edits applied to the chunk lists). distinct_nontrivial = distinct (kind, separator, history, comment-shape) cases with at least one comment and one edit that changes the list.",
		Floor: 1000,
		Run:   runC02,
		Assumptions: []string{
			"go/format is the reference for the edited text; generated layouts or edited texts on which gofmt is not idempotent are inconclusive",
			"'uniform separators' is decided from the text and gofmt only (edge blank lines must survive gofmt)",
		},
		Required: map[string]int{"list_kinds": 14, "edit_kinds": 7, "separators": 2},
	})
}

type c02Kind struct {
	name  string
	open  func(list string) string // text before the elements of list "a" / "b"
	close func(list string) string
	elem  func(tag string, inner bool, variant int) []string // the element's own lines (without leading/trailing comments); trailing comment is appended to the last line
	// slice returns the addressable node slice of list "a"/"b" in the decorated file
	slice func(f *dst.File, list string) reflect.Value
	head  string
	blank bool // blank-line separated layouts are generated too
	noDup bool
	join  string // text between the two lists
	skip  int    // fixed leading elements of the container that are not chunks
	// imports: the elements are package-qualified identifiers; the file is decorated and printed with
	// import management, so each element is a single path-carrying identifier
	imports bool
}

var pkNames = simple.New(map[string]string{"x/pk": "pk"})

func c02FuncBody(f *dst.File, name string) *dst.BlockStmt {
	for _, d := range f.Decls {
		if fd, ok := d.(*dst.FuncDecl); ok && fd.Name.Name == name {
			return fd.Body
		}
	}
	return nil
}

func c02GenDecl(f *dst.File, first string) *dst.GenDecl {
	// the GenDecl whose first spec / type is named "<first>"
	for _, d := range f.Decls {
		if gd, ok := d.(*dst.GenDecl); ok && len(gd.Specs) > 0 {
			switch s := gd.Specs[0].(type) {
			case *dst.TypeSpec:
				if s.Name.Name == first {
					return gd
				}
			case *dst.ValueSpec:
				if len(s.Names) > 0 && s.Names[0].Name == first {
					return gd
				}
			}
		}
	}
	return nil
}

func sv(p interface{}) reflect.Value { return reflect.ValueOf(p).Elem() }

var c02Kinds = []c02Kind{
	{name: "block-statements", head: "package p\n\n", blank: true,
		open:  func(l string) string { return "func f" + l + "() {" },
		close: func(l string) string { return "}" },
		join:  "\n",
		elem: func(t string, inner bool, v int) []string {
			if inner {
				return []string{t + "( /*I " + t + "*/ 1)"}
			}
			switch v % 9 {
			case 1:
				return []string{t + " = g(1)"}
			case 2:
				return []string{t + "++"}
			case 3:
				return []string{"go " + t + "()"}
			case 4:
				return []string{"defer " + t + "()"}
			case 5:
				return []string{t + " <- 1"}
			case 6:
				return []string{"var " + t + " int"}
			case 7:
				return []string{t + ".f(" + t + ", 2)"}
			case 8:
				return []string{t + " := []int{1, 2}"}
			}
			return []string{t + "()"}
		},
		slice: func(f *dst.File, l string) reflect.Value { return sv(&c02FuncBody(f, "f"+l).List) }},
	{name: "file-declarations", head: "package p\n\n", blank: true,
		// both "lists" are slices of one File.Decls: list a = the declarations before the marker func, b = after
		open:  func(l string) string { return "" },
		close: func(l string) string { return "" },
		join:  "\nfunc marker() {}\n\n",
		elem: func(t string, inner bool, v int) []string {
			if inner {
				return []string{"var " + t + " = /*I " + t + "*/ 1"}
			}
			switch v % 5 {
			case 1:
				return []string{"const " + t + " = 1"}
			case 2:
				return []string{"type " + t + " int"}
			case 3:
				return []string{"func " + t + "() {}"}
			case 4:
				return []string{"var " + t + " = func() {}"}
			}
			return []string{"var " + t + " = 1"}
		},
		slice: nil},
	{name: "value-specs", head: "package p\n\n", skip: 1,
		open:  func(l string) string { return "var (\n\tfirst" + l + " = 0" },
		close: func(l string) string { return ")" },
		join:  "\n",
		elem: func(t string, inner bool, v int) []string {
			if inner {
				return []string{t + " = /*I " + t + "*/ 1"}
			}
			switch v % 4 {
			case 1:
				return []string{t + " int"}
			case 2:
				return []string{t + ", x" + t + " = 1, 2"}
			case 3:
				return []string{t + " int = 1"}
			}
			return []string{t + " = 1"}
		},
		slice: func(f *dst.File, l string) reflect.Value { return sv(&c02GenDecl(f, "first"+l).Specs) }},
	{name: "type-specs", head: "package p\n\n", skip: 1,
		open:  func(l string) string { return "type (\n\tfirst" + l + " int" },
		close: func(l string) string { return ")" },
		join:  "\n",
		elem: func(t string, inner bool, v int) []string {
			if inner {
				return []string{t + " /*I " + t + "*/ int"}
			}
			switch v % 5 {
			case 1:
				return []string{t + " = string"}
			case 2:
				return []string{t + " struct{}"}
			case 3:
				return []string{t + "[P any] []P"}
			case 4:
				return []string{t + " struct {", "\tf int", "}"}
			}
			return []string{t + " int"}
		},
		slice: func(f *dst.File, l string) reflect.Value { return sv(&c02GenDecl(f, "first"+l).Specs) }},
	{name: "const-specs", head: "package p\n\n", skip: 1,
		open:  func(l string) string { return "const (\n\tfirst" + l + " = iota" },
		close: func(l string) string { return ")" },
		join:  "\n",
		elem: func(t string, inner bool, v int) []string {
			if inner {
				return []string{t + " = /*I " + t + "*/ 1"}
			}
			switch v % 3 {
			case 1:
				return []string{t}
			case 2:
				return []string{t + " int = 2"}
			}
			return []string{t + " = 1"}
		},
		slice: func(f *dst.File, l string) reflect.Value { return sv(&c02GenDecl(f, "first"+l).Specs) }},
	{name: "struct-fields", head: "package p\n\n", skip: 1,
		open:  func(l string) string { return "type T" + l + " struct {\n\tfirst" + l + " int" },
		close: func(l string) string { return "}" },
		join:  "\n",
		elem: func(t string, inner bool, v int) []string {
			if inner {
				return []string{t + " /*I " + t + "*/ int"}
			}
			switch v % 5 {
			case 1:
				return []string{t + ", x" + t + " string"}
			case 2:
				return []string{t + " struct{}"}
			case 3:
				return []string{"*" + t}
			case 4:
				return []string{t + " int `json:\"" + t + "\"`"}
			}
			return []string{t + " int"}
		},
		slice: func(f *dst.File, l string) reflect.Value {
			return sv(&c02GenDecl(f, "T"+l).Specs[0].(*dst.TypeSpec).Type.(*dst.StructType).Fields.List)
		}},
	{name: "interface-methods", head: "package p\n\n", skip: 1,
		open:  func(l string) string { return "type T" + l + " interface {\n\tfirst" + l + "()" },
		close: func(l string) string { return "}" },
		join:  "\n",
		elem: func(t string, inner bool, v int) []string {
			if inner {
				return []string{t + "( /*I " + t + "*/ int)"}
			}
			switch v % 3 {
			case 1:
				return []string{t + "(x int) error"}
			case 2:
				return []string{"pk." + t}
			}
			return []string{t + "()"}
		},
		slice: func(f *dst.File, l string) reflect.Value {
			return sv(&c02GenDecl(f, "T"+l).Specs[0].(*dst.TypeSpec).Type.(*dst.InterfaceType).Methods.List)
		}},
	{name: "composite-literal-elements", head: "package p\n\n", blank: true,
		open:  func(l string) string { return "var first" + l + " = []int{" },
		close: func(l string) string { return "}" },
		join:  "\n",
		elem: func(t string, inner bool, v int) []string {
			if inner {
				return []string{"g( /*I " + t + "*/ " + t + "),"}
			}
			switch v % 7 {
			case 1:
				return []string{"\"k" + t + "\": " + t + ","}
			case 2:
				return []string{"{" + t + "},"}
			case 3:
				return []string{"&" + t + ","}
			case 4:
				return []string{t + ".f,"}
			case 5:
				return []string{"1: " + t + ","}
			case 6:
				return []string{"g(" + t + ", 1),"}
			}
			return []string{t + ","}
		},
		slice: func(f *dst.File, l string) reflect.Value {
			return sv(&c02GenDecl(f, "first"+l).Specs[0].(*dst.ValueSpec).Values[0].(*dst.CompositeLit).Elts)
		}},
	{name: "composite-literal-elements-qualified", head: "package p\n\nimport \"x/pk\"\n\n", blank: true, imports: true,
		open:  func(l string) string { return "var first" + l + " = []interface{}{" },
		close: func(l string) string { return "}" },
		join:  "\n",
		elem: func(t string, inner bool, v int) []string {
			if inner {
				return []string{"pk. /*I " + t + "*/ " + t + ","}
			}
			return []string{"pk." + t + ","}
		},
		slice: func(f *dst.File, l string) reflect.Value {
			return sv(&c02GenDecl(f, "first"+l).Specs[0].(*dst.ValueSpec).Values[0].(*dst.CompositeLit).Elts)
		}},
	{name: "call-arguments-qualified", head: "package p\n\nimport \"x/pk\"\n\n", imports: true,
		open:  func(l string) string { return "var first" + l + " = f(" },
		close: func(l string) string { return ")" },
		join:  "\n",
		elem: func(t string, inner bool, v int) []string {
			if inner {
				return []string{"pk. /*I " + t + "*/ " + t + ","}
			}
			return []string{"pk." + t + ","}
		},
		slice: func(f *dst.File, l string) reflect.Value {
			return sv(&c02GenDecl(f, "first"+l).Specs[0].(*dst.ValueSpec).Values[0].(*dst.CallExpr).Args)
		}},
	{name: "call-arguments", head: "package p\n\n",
		open:  func(l string) string { return "var first" + l + " = f(" },
		close: func(l string) string { return ")" },
		join:  "\n",
		elem: func(t string, inner bool, v int) []string {
			if inner {
				return []string{"g( /*I " + t + "*/ " + t + "),"}
			}
			switch v % 6 {
			case 1:
				return []string{"-" + t + ","}
			case 2:
				return []string{t + "[1],"}
			case 3:
				return []string{"&" + t + "{},"}
			case 4:
				return []string{t + ".f(1),"}
			case 5:
				return []string{"\"" + t + "\","}
			}
			return []string{t + ","}
		},
		slice: func(f *dst.File, l string) reflect.Value {
			return sv(&c02GenDecl(f, "first"+l).Specs[0].(*dst.ValueSpec).Values[0].(*dst.CallExpr).Args)
		}},
	{name: "case-clauses", head: "package p\n\n", blank: true,
		open:  func(l string) string { return "func f" + l + "() {\n\tswitch x {" },
		close: func(l string) string { return "\t}\n}" },
		join:  "\n",
		elem: func(t string, inner bool, v int) []string {
			if inner {
				return []string{"case " + t + ":", "\tg( /*I " + t + "*/ " + t + ")"}
			}
			switch v % 5 {
			case 1:
				return []string{"case " + t + ", x" + t + ":", "\tg(" + t + ")", "\th(" + t + ")"}
			case 2:
				return []string{"case " + t + " > 1:", "\treturn " + t}
			case 3:
				// a comment on its own line at the end of the clause body (inner comment of the chunk)
				return []string{"case " + t + ":", "\tg(" + t + ")", "\t// H " + t}
			case 4:
				return []string{"case " + t + ":", "\t// only " + t}
			}
			return []string{"case " + t + ":", "\tg(" + t + ")"}
		},
		slice: func(f *dst.File, l string) reflect.Value {
			return sv(&c02FuncBody(f, "f"+l).List[0].(*dst.SwitchStmt).Body.List)
		}},
	{name: "case-clauses(select)", head: "package p\n\n", blank: true,
		open:  func(l string) string { return "func f" + l + "() {\n\tselect {" },
		close: func(l string) string { return "\t}\n}" },
		join:  "\n",
		elem: func(t string, inner bool, v int) []string {
			if inner {
				return []string{"case <-" + t + ":", "\tg( /*I " + t + "*/ " + t + ")"}
			}
			switch v % 4 {
			case 1:
				return []string{"case x" + t + " := <-" + t + ":", "\tg(x" + t + ")", "\t// H " + t}
			case 2:
				return []string{"case " + t + " <- 1:", "\t// only " + t}
			case 3:
				return []string{"case <-" + t + ":", "\tg(" + t + ")", "\th(" + t + ")"}
			}
			return []string{"case <-" + t + ":", "\tg(" + t + ")"}
		},
		slice: func(f *dst.File, l string) reflect.Value {
			return sv(&c02FuncBody(f, "f"+l).List[0].(*dst.SelectStmt).Body.List)
		}},
	{name: "import-specs", head: "package p\n\n", noDup: true,
		open:  func(l string) string { return "import (" },
		close: func(l string) string { return ")" },
		join:  "\n",
		elem: func(t string, inner bool, v int) []string {
			switch v % 4 {
			case 1:
				return []string{"al" + t + " \"x/" + t + "\""}
			case 2:
				return []string{"_ \"x/" + t + "\""}
			case 3:
				return []string{". \"x/" + t + "\""}
			}
			return []string{"\"x/" + t + "\""}
		},
		slice: func(f *dst.File, l string) reflect.Value {
			i := 0
			if l == "b" {
				i = 1
			}
			return sv(&f.Decls[i].(*dst.GenDecl).Specs)
		}},
}

type c02Chunk struct {
	tag   string
	lines []string
}

type c02Layout struct {
	kind  c02Kind
	blank bool
	a, b  []c02Chunk
	shape string
}

// render builds the text of a layout from chunk lists.
func (l *c02Layout) render(a, b []c02Chunk) string {
	var sb strings.Builder
	sb.WriteString(l.kind.head)
	writeList := func(list string, cs []c02Chunk) {
		if o := l.kind.open(list); o != "" {
			sb.WriteString(o + "\n")
		}
		if l.blank && l.kind.open(list) != "" {
			sb.WriteString("\n")
		}
		for i, c := range cs {
			if i > 0 && l.blank {
				sb.WriteString("\n")
			}
			for _, ln := range c.lines {
				sb.WriteString(ln + "\n")
			}
		}
		if l.blank && l.kind.close(list) != "" {
			sb.WriteString("\n")
		}
		if cl := l.kind.close(list); cl != "" {
			sb.WriteString(cl + "\n")
		}
	}
	writeList("a", a)
	sb.WriteString(l.kind.join)
	writeList("b", b)
	return sb.String()
}

var c02TagRe = regexp.MustCompile(`e[ab][0-9][0-9]`)

// recut cuts the chunks out of canonical text: the maximal span of lines mentioning a tag.
func recut(canon string, chunks []c02Chunk) ([]c02Chunk, bool) {
	lines := strings.Split(canon, "\n")
	out := make([]c02Chunk, len(chunks))
	for i, c := range chunks {
		first, last := -1, -1
		for k, ln := range lines {
			for _, m := range c02TagRe.FindAllString(ln, -1) {
				if m == c.tag {
					if first < 0 {
						first = k
					}
					last = k
				}
			}
		}
		if first < 0 {
			return nil, false
		}
		for k := first; k <= last; k++ {
			tags := c02TagRe.FindAllString(lines[k], -1)
			if len(tags) == 0 && strings.TrimSpace(lines[k]) == "" {
				return nil, false // a blank line inside a chunk
			}
			for _, m := range tags {
				if m != c.tag {
					return nil, false // chunks interleave
				}
			}
		}
		out[i] = c02Chunk{tag: c.tag, lines: append([]string(nil), lines[first:last+1]...)}
	}
	return out, true
}

func c02Generate(r *rand.Rand, kind c02Kind, blank bool) *c02Layout {
	l := &c02Layout{kind: kind, blank: blank}
	mk := func(list string, n int) []c02Chunk {
		var cs []c02Chunk
		for i := 0; i < n; i++ {
			tag := fmt.Sprintf("e%s%02d", list, i+1)
			var lines []string
			nlead := r.Intn(3)
			if r.Intn(3) == 0 {
				nlead = 0
			}
			for k := 0; k < nlead; k++ {
				lines = append(lines, fmt.Sprintf("// L%d %s", k, tag))
			}
			inner := r.Intn(3) == 0
			variant := r.Intn(64)
			el := kind.elem(tag, inner, variant)
			trail := r.Intn(2) == 0
			if trail && variant/9%3 == 0 {
				// two trailing comments on the element's line: a block comment and a line comment
				el[len(el)-1] += " /* U " + tag + " */ // T " + tag
			} else if trail && variant/9%3 == 1 && variant%2 == 0 {
				// a trailing block comment that continues on a second line
				el[len(el)-1] += " /* U " + tag + "\n\t\t\t   V " + tag + " */"
			} else if trail {
				el[len(el)-1] += " // T " + tag
			}
			lines = append(lines, el...)
			l.shape += fmt.Sprintf("%d%v%v%d.", nlead, inner, trail, variant%9)
			cs = append(cs, c02Chunk{tag: tag, lines: lines})
		}
		return cs
	}
	l.a = mk("a", 1+r.Intn(8))
	l.b = mk("b", 1+r.Intn(4))
	return l
}

type c02Edit struct {
	Op   string
	I, J int
}

func c02History(r *rand.Rand, noDup bool) []c02Edit {
	n := 1 + r.Intn(6)
	ops := []string{"swap", "rotate", "reverse", "delete", "duplicate", "moveAB", "moveBA"}
	var h []c02Edit
	for k := 0; k < n; k++ {
		op := ops[r.Intn(len(ops))]
		if noDup && op == "duplicate" {
			op = "swap"
		}
		h = append(h, c02Edit{op, r.Intn(64), r.Intn(64)})
	}
	return h
}

// applyEdit applies one edit to two generic lists through callbacks; used for both the text chunks
// and the dst node slices so that the two sides cannot drift apart.
func applyEdit(e c02Edit, lenA, lenB func() int, swapA func(i, j int), delA func(i int), dupA func(i int), moveAB func(i, j int), moveBA func(i, j int), rotA func(), revA func()) bool {
	na, nb := lenA(), lenB()
	switch e.Op {
	case "swap":
		if na < 2 {
			return false
		}
		i, j := e.I%na, e.J%na
		if i == j {
			return false
		}
		swapA(i, j)
	case "rotate":
		if na < 2 {
			return false
		}
		rotA()
	case "reverse":
		if na < 2 {
			return false
		}
		revA()
	case "delete":
		if na < 2 {
			return false
		}
		delA(e.I % na)
	case "duplicate":
		if na < 1 || na > 10 {
			return false
		}
		dupA(e.I % na)
	case "moveAB":
		if na < 2 {
			return false
		}
		moveAB(e.I%na, e.J%(nb+1))
	case "moveBA":
		if nb < 2 {
			return false
		}
		moveBA(e.I%nb, e.J%(na+1))
	}
	return true
}

func runC02(c *fw.Ctx) {
	n := c.Pick(30000, 400000)
	for i := 0; i < n; i++ {
		if !c.Mine(i) {
			continue
		}
		id := fmt.Sprintf("case:%d", i)
		c.Case(id, func() { c02One(c, id, i) })
	}
}

func c02One(c *fw.Ctx, id string, i int) {
	r := c.Rand(id)
	kind := c02Kinds[i%len(c02Kinds)]
	blank := kind.blank && r.Intn(2) == 0
	if kind.name == "file-declarations" {
		blank = true // the file edges (package clause, EOF) are blank-line separated: only this layout is uniform
	}
	lay := c02Generate(r, kind, blank)
	raw := lay.render(lay.a, lay.b)
	canonB, ok := gen.Canonicalise([]byte(raw))
	if !ok {
		c.Count("inconclusive_layout_not_gofmt_idempotent", 1)
		return
	}
	canon := string(canonB)
	ca, ok1 := recut(canon, lay.a)
	cb, ok2 := recut(canon, lay.b)
	if !ok1 || !ok2 {
		c.Count("inconclusive_chunks_not_separable", 1)
		return
	}
	// uniformity: rendering the canonical chunks must reproduce the canonical text exactly
	lay.a, lay.b = ca, cb
	if lay.render(ca, cb) != canon {
		c.Count("skipped_non_uniform_layout", 1) // gofmt altered separators / edges
		c.Observe("non_uniform", kind.name+fmt.Sprint(blank))
		return
	}
	hist := c02History(r, kind.noDup)

	// dst side; every fifth source is handed over without its final line feed (the text the edits are
	// judged against is gofmt's, which ends every file with one)
	parsed := canon
	if i%5 == 4 {
		parsed = strings.TrimSuffix(canon, "\n")
		c.Count("sources_without_final_newline", 1)
	}
	var f *dst.File
	var err error
	if kind.imports {
		f, err = decorator.NewDecoratorWithImports(token.NewFileSet(), "x/self", goast.WithResolver(pkNames)).Parse(parsed)
	} else {
		f, err = decorator.Parse(parsed)
	}
	if err != nil {
		c.Violate("parse-failed", "parse-failed", id+": "+err.Error(), canon)
		return
	}
	var sa, sb reflect.Value
	var declsHolder *[]dst.Decl
	if kind.name == "file-declarations" {
		// split File.Decls at the marker
		var da, db []dst.Decl
		var marker dst.Decl
		seen := false
		for _, d := range f.Decls {
			if fd, ok := d.(*dst.FuncDecl); ok && fd.Name.Name == "marker" {
				marker = d
				seen = true
				continue
			}
			if seen {
				db = append(db, d)
			} else {
				da = append(da, d)
			}
		}
		declsHolder = &f.Decls
		sa, sb = sv(&da), sv(&db)
		defer func() { _ = marker }()
		// after the edits the file is reassembled below
		fin := func() {
			var all []dst.Decl
			all = append(all, sa.Interface().([]dst.Decl)...)
			all = append(all, marker)
			all = append(all, sb.Interface().([]dst.Decl)...)
			*declsHolder = all
		}
		c02Run(c, id, kind, blank, lay, hist, canon, f, sa, sb, fin, 0, 0)
		return
	}
	skipA, skipB := kind.skip, kind.skip
	sa, sb = kind.slice(f, "a"), kind.slice(f, "b")
	c02Run(c, id, kind, blank, lay, hist, canon, f, sa, sb, func() {}, skipA, skipB)
}

func c02Run(c *fw.Ctx, id string, kind c02Kind, blank bool, lay *c02Layout, hist []c02Edit, canon string, f *dst.File, sa, sb reflect.Value, fin func(), skipA, skipB int) {
	ta, tb := append([]c02Chunk(nil), lay.a...), append([]c02Chunk(nil), lay.b...)
	if sa.Len()-skipA != len(ta) || sb.Len()-skipB != len(tb) {
		c.Violate("list-length", "list-length:"+kind.name, fmt.Sprintf("%s: decorated list has %d/%d elements, text has %d/%d", id, sa.Len()-skipA, sb.Len()-skipB, len(ta), len(tb)), canon)
		return
	}
	// generic slice helpers on reflect values (offset by the fixed first element)
	get := func(s reflect.Value, skip, i int) reflect.Value { return s.Index(skip + i) }
	remove := func(s reflect.Value, skip, i int) reflect.Value {
		e := reflect.ValueOf(s.Index(skip + i).Interface())
		ns := reflect.AppendSlice(s.Slice(0, skip+i), s.Slice(skip+i+1, s.Len()))
		s.Set(ns)
		return e
	}
	insert := func(s reflect.Value, skip, at int, e reflect.Value) {
		ns := reflect.MakeSlice(s.Type(), 0, s.Len()+1)
		ns = reflect.AppendSlice(ns, s.Slice(0, skip+at))
		ns = reflect.Append(ns, e)
		ns = reflect.AppendSlice(ns, s.Slice(skip+at, s.Len()))
		s.Set(ns)
	}
	changed := 0
	var applied []string
	for _, e := range hist {
		ok := applyEdit(e,
			func() int { return len(ta) }, func() int { return len(tb) },
			func(i, j int) {
				ta[i], ta[j] = ta[j], ta[i]
				x, y := get(sa, skipA, i).Interface(), get(sa, skipA, j).Interface()
				get(sa, skipA, i).Set(reflect.ValueOf(y))
				get(sa, skipA, j).Set(reflect.ValueOf(x))
			},
			func(i int) {
				ta = append(append([]c02Chunk(nil), ta[:i]...), ta[i+1:]...)
				remove(sa, skipA, i)
			},
			func(i int) {
				ta = append(append(append([]c02Chunk(nil), ta[:i+1]...), ta[i]), ta[i+1:]...)
				cl := dst.Clone(get(sa, skipA, i).Interface().(dst.Node))
				insert(sa, skipA, i+1, reflect.ValueOf(cl))
			},
			func(i, j int) {
				ch := ta[i]
				ta = append(append([]c02Chunk(nil), ta[:i]...), ta[i+1:]...)
				tb = append(append(append([]c02Chunk(nil), tb[:j]...), ch), tb[j:]...)
				e := remove(sa, skipA, i)
				insert(sb, skipB, j, e)
			},
			func(i, j int) {
				ch := tb[i]
				tb = append(append([]c02Chunk(nil), tb[:i]...), tb[i+1:]...)
				ta = append(append(append([]c02Chunk(nil), ta[:j]...), ch), ta[j:]...)
				e := remove(sb, skipB, i)
				insert(sa, skipA, j, e)
			},
			func() {
				ta = append(append([]c02Chunk(nil), ta[1:]...), ta[0])
				e := remove(sa, skipA, 0)
				insert(sa, skipA, len(ta)-1, e)
			},
			func() {
				for x, y := 0, len(ta)-1; x < y; x, y = x+1, y-1 {
					ta[x], ta[y] = ta[y], ta[x]
					p, q := get(sa, skipA, x).Interface(), get(sa, skipA, y).Interface()
					get(sa, skipA, x).Set(reflect.ValueOf(q))
					get(sa, skipA, y).Set(reflect.ValueOf(p))
				}
			})
		if ok {
			changed++
			applied = append(applied, e.Op)
			c.Observe("edit_kinds", e.Op)
		}
	}
	fin()
	editedText := lay.render(ta, tb)
	wantB, ok := gen.Canonicalise([]byte(editedText))
	if !ok {
		c.Count("inconclusive_edited_text_not_gofmt_idempotent", 1)
		return
	}
	got, perr := "", ""
	if kind.imports {
		var buf bytes.Buffer
		if sig, detail := fw.Try(func() {
			if e := decorator.NewRestorerWithImports("x/self", pkNames).Fprint(&buf, f); e != nil {
				perr = e.Error()
			}
		}); sig != "" {
			perr = sig + "\n" + detail
		}
		got = buf.String()
	} else {
		got, perr = printFile(f)
	}
	sepName := "newline"
	if blank {
		sepName = "blank-line"
	}
	c.Observe("list_kinds", kind.name)
	c.Observe("separators", sepName)
	c.Count("histories", 1)
	c.Count("edits_applied", int64(changed))
	if perr != "" {
		c.Violate("print-failed", "print-failed:"+kind.name, fmt.Sprintf("%s kind=%s sep=%s history=%v: %s", id, kind.name, sepName, applied, perr), canon)
		return
	}
	if got != string(wantB) {
		// diagnostic: which comment went where
		diag := c02Diagnose(got, string(wantB))
		c.Violate("edited-text-differs", "edited-text-differs:"+kind.name+":"+sepName+":"+diag, fmt.Sprintf("%s kind=%s sep=%s history=%v\n%s\n--- source\n%s", id, kind.name, sepName, applied, obs.DiffContext([]byte(got), wantB), canon), canon)
		return
	}
	// the same edited tree printed by a restorer that also rebuilds objects and scopes (Extras):
	// elements deleted from their list may still be reachable through the file scope, but they are
	// not part of the file any more and neither are their comments
	{
		var buf bytes.Buffer
		rs := decorator.NewRestorer()
		if kind.imports {
			rs = decorator.NewRestorerWithImports("x/self", pkNames)
		}
		rs.Extras = true
		var xerr error
		if sig, detail := fw.Try(func() { xerr = rs.Fprint(&buf, f) }); sig != "" {
			c.Violate("print-failed", "print-failed:extras:"+kind.name, fmt.Sprintf("%s kind=%s history=%v: %s\n%s", id, kind.name, applied, sig, detail), canon)
			return
		}
		if xerr == nil && buf.String() != string(wantB) {
			diag := c02Diagnose(buf.String(), string(wantB))
			c.Violate("edited-text-differs", "edited-text-differs:extras:"+kind.name+":"+diag, fmt.Sprintf("%s kind=%s sep=%s history=%v (printed with Restorer.Extras)\n%s", id, kind.name, sepName, applied, obs.DiffContext(buf.Bytes(), wantB)), canon)
			return
		}
		c.Count("printed_with_extras", 1)
	}
	if changed > 0 && (strings.Contains(canon, "//") || strings.Contains(canon, "/*")) {
		c.Nontrivial(kind.name, sepName, fmt.Sprint(applied), lay.shape)
	}
	if len(applied) >= 3 && kind.name == "block-statements" {
		c.Sample(map[string]interface{}{"case": id, "kind": kind.name, "separator": sepName, "history": applied, "source": canon})
	}
}

// c02Diagnose names the kind of disagreement: comment lost / duplicated / moved / spacing only.
func c02Diagnose(got, want string) string {
	gt, _ := obs.Scan([]byte(got))
	wt, _ := obs.Scan([]byte(want))
	gc, wc := obs.Comments(gt), obs.Comments(wt)
	missing, extra := multisetDiff(wc, gc)
	switch {
	case len(missing) > 0 && len(extra) > 0:
		return "comment-lost-and-extra"
	case len(missing) > 0:
		return "comment-lost"
	case len(extra) > 0:
		return "comment-duplicated"
	}
	if !eqStrings(obs.Syntax(gt), obs.Syntax(wt)) {
		return "tokens"
	}
	if !eqStrings(gc, wc) {
		return "comment-order"
	}
	// same tokens and comments in the same order: is a comment on a different element's line?
	lineOf := func(ts []obs.Tok) []string {
		var out []string
		lastIdent := ""
		for _, t := range ts {
			if t.Tok.IsLiteral() && c02TagRe.MatchString(t.Lit) {
				lastIdent = c02TagRe.FindString(t.Lit)
			}
			if t.Tok.String() == "COMMENT" {
				out = append(out, lastIdent)
			}
		}
		return out
	}
	if !eqStrings(lineOf(gt), lineOf(wt)) {
		return "comment-attached-elsewhere"
	}
	return "spacing"
}

var _ = bytes.Equal
