package props

import (
	"fmt"
	"go/ast"
	"go/parser"
	"go/token"
	"hash/fnv"
	"path/filepath"
	"reflect"
	"sort"
	"strings"

	"github.com/dave/dst"
	"github.com/dave/dst/decorator"
	"github.com/dave/dst/dstutil"
	"golang.org/x/tools/go/ast/astutil"

	"verif/internal/corpus"
	"verif/internal/fw"
	"verif/internal/refl"
)

func init() {
	fw.Register(&fw.Check{
		ID:    "C14",
		Level: "exploration",
		Rule: "cases: (tree, script) pairs; trees are corpus files parsed without comments and decorated (both the go/ast tree and the dst tree are kept) plus ParseDir packages; a script is " +
			"a pure function of (callback number over non-nil nodes, phase, node type, field name, index, seed) that chooses among: nothing, pre returns false, post returns false (abort), " +
			"Replace, Delete, InsertBefore, InsertAfter, and several of these on one element, at densities 0-60%. The script runs once through dstutil.Apply on the dst tree and once " +
			"through golang.org/x/tools astutil.Apply (v0.1.12, dst's own dependency) on the ast tree, fresh nodes being created in corresponding pairs typed by the static type of the " +
			"containing field. Compared: callback logs (phase, node identity through the node maps / creation order, parent, Name, Index) over non-nil nodes, panic/no-panic, returned root, " +
			"final tree shape. Asserted on the dst side alone: Parent.Name[Index] == Node at every callback, created nodes never visited, no original visited twice in pre. " +
			"distinct_nontrivial = distinct (tree, script) pairs in which at least one edit operation was executed.",
		Floor: 300,
		Run:   runC14,
		Assumptions: []string{
			"astutil.Apply v0.1.12 is the executable reference model",
			"callbacks for nil children are outside the statement (dstutil calls pre/post for a nil TypeParams, no astutil version does); the script never acts on them and they are not compared",
		},
		Required: map[string]int{"ops_executed": 6},
	})
}

type c14Event struct {
	Phase  string
	ID     int
	Parent int
	Name   string
	Index  int
	Type   string
	Inv    bool // Parent.Name[Index] == Node held at this callback
}

var c14Mandatory = map[string][]string{
	"Ident": {"Name"}, "BasicLit": {"Value", "Kind"}, "ExprStmt": {"X"}, "Field": {"Type"}, "FuncType": {"Params"}, "CallExpr": {"Fun"},
	"GenDecl": {"Tok"}, "ValueSpec": {"Names", "Type"}, "File": {"Name"}, "ImportSpec": {"Path"}, "TypeSpec": {"Name", "Type"},
	"FuncDecl": {"Name", "Type"}, "CaseClause": {}, "CommClause": {}, "BlockStmt": {}, "FieldList": {},
}

var c14Concrete = map[string]string{"Expr": "Ident", "Stmt": "ExprStmt", "Decl": "GenDecl", "Spec": "ValueSpec", "Node": "Ident"}

// c14Side is one of the two executions (dst or ast).
type c14Side struct {
	types              map[string]reflect.Type // concrete pointer types by name
	ids                map[interface{}]int
	created            int
	log                []c14Event
	step               int
	seed               uint32
	density            uint32
	ops                map[string]int
	nodeIfc            reflect.Type
	violated           string
	preSeen            map[int]int
	rootReplaced       bool
	nilPackageChildren int  // callbacks whose parent is the package and whose node is nil
	nilPre, nilPost    int  // callbacks on nil child slots, per phase
	nilListElems       int  // pre callbacks on a nil element of a list (Index() >= 0)
	rootMode           bool // scripts that only replace the root and abort (no other edits, so no early panics)
}

func (s *c14Side) build(t reflect.Type) reflect.Value {
	if t.Kind() == reflect.Interface {
		t = s.types[c14Concrete[t.Name()]]
	}
	v := reflect.New(t.Elem())
	s.created++
	s.ids[v.Interface()] = -s.created
	for _, fn := range c14Mandatory[t.Elem().Name()] {
		f := v.Elem().FieldByName(fn)
		switch {
		case f.Kind() == reflect.String:
			if fn == "Value" {
				f.SetString("0")
			} else {
				f.SetString(fmt.Sprintf("n%d", s.created))
			}
		case f.Type() == reflect.TypeOf(token.ADD):
			if fn == "Kind" {
				f.Set(reflect.ValueOf(token.INT))
			} else {
				f.Set(reflect.ValueOf(token.VAR))
			}
		case f.Kind() == reflect.Slice:
			f.Set(reflect.Append(f, s.build(f.Type().Elem())))
		default:
			f.Set(s.build(f.Type()))
		}
	}
	return v
}

type c14Cursor interface {
	replace(n reflect.Value)
	delete()
	insertBefore(n reflect.Value)
	insertAfter(n reflect.Value)
}

// decide is the script: a pure function of its arguments.
func (s *c14Side) decide(phase, typ, name string, index int) uint32 {
	h := fnv.New32a()
	fmt.Fprintf(h, "%d/%d/%s/%s/%s/%d", s.seed, s.step, phase, typ, name, index)
	v := h.Sum32()
	if v%100 >= s.density {
		return 0
	}
	return 1 + (v/100)%13
}

// c14LaterSibling: for a child in field X of a parent of type T, a later single-node field of the
// same parent that a callback may assign directly (what an Apply nested in the callback, or any
// other code that holds the parent, does): the traversal reads each field when it gets to it.
var c14LaterSibling = map[string]string{
	"IfStmt.Cond": "Body", "IfStmt.Init": "Cond", "ForStmt.Cond": "Body", "ForStmt.Init": "Post", "RangeStmt.X": "Body", "RangeStmt.Key": "X",
	"SliceExpr.X": "High", "SliceExpr.Low": "Max", "BinaryExpr.X": "Y", "KeyValueExpr.Key": "Value", "FuncDecl.Name": "Body", "IndexExpr.X": "Index",
	"TypeAssertExpr.X": "Type", "StarExpr.X": "", "LabeledStmt.Label": "Stmt", "SendStmt.Chan": "Value",
}

// on handles one callback. Returns the callback's result.
func (s *c14Side) on(phase string, node, parent interface{}, name string, index int, cur c14Cursor) bool {
	if refl.IsNil(node) {
		// pre and post are both called for a nil child slot: counted per phase
		if phase == "pre" {
			s.nilPre++
			if index >= 0 {
				s.nilListElems++
			}
		} else {
			s.nilPost++
		}
		// callbacks on nil optional children are not compared (go/ast has child fields dst lacks),
		// but a package has no optional children: each of its children is one of its files
		if pv := reflect.Indirect(reflect.ValueOf(parent)); pv.IsValid() && pv.Kind() == reflect.Struct && pv.Type().Name() == "Package" {
			s.nilPackageChildren++
		}
		return true
	}
	s.step++
	id, known := s.ids[node]
	if !known {
		id = 999999
	}
	pid := s.ids[parent]
	typ := refl.TypeName(node)
	s.log = append(s.log, c14Event{phase, id, pid, name, index, typ, name == "Node" || c14Invariant(node, parent, name, index) == ""})
	if name == "Node" {
		// the root wrapper: it can be replaced (both implementations keep it in a one-field struct)
		// and post may abort at it; the returned root is compared afterwards
		if t, ok := s.types[typ]; ok && typ != "Package" {
			if s.rootMode {
				r := s.seed % 3
				if (phase == "pre" && r != 1) || (phase == "post" && r != 0) {
					s.ops["Replace-root"]++
					s.ops["Replace-root-"+phase]++
					s.rootReplaced = true
					cur.replace(s.build(t))
				}
				if phase == "post" && s.seed%5 == 0 {
					s.ops["post-false"]++
					s.ops["post-false-after-root-replaced"]++
					return false
				}
				return true
			}
			switch s.decide(phase, typ, name, index) {
			case 2:
				if phase == "post" {
					s.ops["post-false"]++
					if s.rootReplaced {
						s.ops["post-false-after-root-replaced"]++
					}
					return false
				}
			case 3, 9:
				s.ops["Replace-root"]++
				s.ops["Replace-root-"+phase]++
				s.rootReplaced = true
				cur.replace(s.build(t))
			}
		}
		return true
	}
	// static type of the containing slot
	var slot reflect.Type
	pv := reflect.Indirect(reflect.ValueOf(parent))
	if pv.Type().Name() == "Package" {
		slot = s.types["File"]
	} else {
		f := pv.FieldByName(name)
		if !f.IsValid() {
			return true
		}
		slot = f.Type()
		if slot.Kind() == reflect.Slice {
			slot = slot.Elem()
		}
	}
	isFile := pv.Type().Name() == "Package"
	act := s.decide(phase, typ, name, index)
	if s.rootMode && act != 2 {
		act = 0
	}
	do := func(op string, f func()) {
		s.ops[op]++
		f()
	}
	switch act {
	case 0:
		return true
	case 1:
		if phase == "pre" {
			s.ops["pre-false"]++
			return false
		}
	case 2:
		if phase == "post" && (s.step%7 == 0 || s.rootReplaced) {
			s.ops["post-false"]++
			if s.rootReplaced {
				s.ops["post-false-after-root-replaced"]++
			}
			return false
		}
	case 3:
		do("Replace", func() { cur.replace(s.build(slot)) })
	case 4:
		if index >= 0 || isFile {
			do("Delete", func() { cur.delete() })
		}
	case 5:
		if index >= 0 {
			do("InsertBefore", func() { cur.insertBefore(s.build(slot)) })
		}
	case 6:
		if index >= 0 {
			do("InsertAfter", func() { cur.insertAfter(s.build(slot)) })
		}
	case 7:
		if index >= 0 {
			do("InsertBefore+InsertAfter", func() { cur.insertBefore(s.build(slot)); cur.insertAfter(s.build(slot)) })
		}
	case 8:
		if index >= 0 {
			do("InsertAfter×2+Delete", func() { cur.insertAfter(s.build(slot)); cur.insertAfter(s.build(slot)); cur.delete() })
		}
	case 9:
		if index >= 0 {
			do("Replace+InsertBefore", func() { cur.replace(s.build(slot)); cur.insertBefore(s.build(slot)) })
		}
	case 10:
		if index >= 0 {
			do("InsertBefore×2", func() { cur.insertBefore(s.build(slot)); cur.insertBefore(s.build(slot)) })
		}
	case 11:
		if index < 0 && !isFile && s.step%11 == 0 {
			do("Delete-non-list(panics)", func() { cur.delete() })
		}
	case 13:
		if sib := c14LaterSibling[pv.Type().Name()+"."+name]; sib != "" && phase == "pre" {
			if f := pv.FieldByName(sib); f.IsValid() && f.CanSet() && !f.IsNil() {
				do("assign-later-sibling-field", func() { f.Set(s.build(f.Type())) })
			}
		}
	case 12:
		// astutil itself panics (slice bounds) when this pair is issued on the last element; the
		// panic parity is still exercised, but rarely, so that most scripts run to the end
		if index >= 0 && (index+1 < pv.FieldByName(name).Len() || s.step%5 == 0) {
			do("Delete+InsertAfter", func() { cur.delete(); cur.insertAfter(s.build(slot)) })
		}
	}
	return true
}

type dstCur struct{ c *dstutil.Cursor }

func (d dstCur) replace(n reflect.Value)      { d.c.Replace(n.Interface().(dst.Node)) }
func (d dstCur) delete()                      { d.c.Delete() }
func (d dstCur) insertBefore(n reflect.Value) { d.c.InsertBefore(n.Interface().(dst.Node)) }
func (d dstCur) insertAfter(n reflect.Value)  { d.c.InsertAfter(n.Interface().(dst.Node)) }

type astCur struct{ c *astutil.Cursor }

func (d astCur) replace(n reflect.Value)      { d.c.Replace(n.Interface().(ast.Node)) }
func (d astCur) delete()                      { d.c.Delete() }
func (d astCur) insertBefore(n reflect.Value) { d.c.InsertBefore(n.Interface().(ast.Node)) }
func (d astCur) insertAfter(n reflect.Value)  { d.c.InsertAfter(n.Interface().(ast.Node)) }

var astTypes = func() map[string]reflect.Type {
	m := map[string]reflect.Type{}
	for _, v := range []ast.Node{&ast.ArrayType{}, &ast.AssignStmt{}, &ast.BadDecl{}, &ast.BadExpr{}, &ast.BadStmt{}, &ast.BasicLit{}, &ast.BinaryExpr{},
		&ast.BlockStmt{}, &ast.BranchStmt{}, &ast.CallExpr{}, &ast.CaseClause{}, &ast.ChanType{}, &ast.CommClause{}, &ast.CompositeLit{}, &ast.DeclStmt{},
		&ast.DeferStmt{}, &ast.Ellipsis{}, &ast.EmptyStmt{}, &ast.ExprStmt{}, &ast.Field{}, &ast.FieldList{}, &ast.File{}, &ast.ForStmt{}, &ast.FuncDecl{},
		&ast.FuncLit{}, &ast.FuncType{}, &ast.GenDecl{}, &ast.GoStmt{}, &ast.Ident{}, &ast.IfStmt{}, &ast.ImportSpec{}, &ast.IncDecStmt{}, &ast.IndexExpr{},
		&ast.IndexListExpr{}, &ast.InterfaceType{}, &ast.KeyValueExpr{}, &ast.LabeledStmt{}, &ast.MapType{}, &ast.Package{}, &ast.ParenExpr{}, &ast.RangeStmt{},
		&ast.ReturnStmt{}, &ast.SelectStmt{}, &ast.SelectorExpr{}, &ast.SendStmt{}, &ast.SliceExpr{}, &ast.StarExpr{}, &ast.StructType{}, &ast.SwitchStmt{},
		&ast.TypeAssertExpr{}, &ast.TypeSpec{}, &ast.TypeSwitchStmt{}, &ast.UnaryExpr{}, &ast.ValueSpec{}} {
		m[reflect.TypeOf(v).Elem().Name()] = reflect.TypeOf(v)
	}
	return m
}()

var dstTypes = func() map[string]reflect.Type {
	m := map[string]reflect.Type{}
	for _, v := range []dst.Node{&dst.ArrayType{}, &dst.AssignStmt{}, &dst.BadDecl{}, &dst.BadExpr{}, &dst.BadStmt{}, &dst.BasicLit{}, &dst.BinaryExpr{},
		&dst.BlockStmt{}, &dst.BranchStmt{}, &dst.CallExpr{}, &dst.CaseClause{}, &dst.ChanType{}, &dst.CommClause{}, &dst.CompositeLit{}, &dst.DeclStmt{},
		&dst.DeferStmt{}, &dst.Ellipsis{}, &dst.EmptyStmt{}, &dst.ExprStmt{}, &dst.Field{}, &dst.FieldList{}, &dst.File{}, &dst.ForStmt{}, &dst.FuncDecl{},
		&dst.FuncLit{}, &dst.FuncType{}, &dst.GenDecl{}, &dst.GoStmt{}, &dst.Ident{}, &dst.IfStmt{}, &dst.ImportSpec{}, &dst.IncDecStmt{}, &dst.IndexExpr{},
		&dst.IndexListExpr{}, &dst.InterfaceType{}, &dst.KeyValueExpr{}, &dst.LabeledStmt{}, &dst.MapType{}, &dst.Package{}, &dst.ParenExpr{}, &dst.RangeStmt{},
		&dst.ReturnStmt{}, &dst.SelectStmt{}, &dst.SelectorExpr{}, &dst.SendStmt{}, &dst.SliceExpr{}, &dst.StarExpr{}, &dst.StructType{}, &dst.SwitchStmt{},
		&dst.TypeAssertExpr{}, &dst.TypeSpec{}, &dst.TypeSwitchStmt{}, &dst.UnaryExpr{}, &dst.ValueSpec{}} {
		m[reflect.TypeOf(v).Elem().Name()] = reflect.TypeOf(v)
	}
	return m
}()

// shape renders a tree as a sequence of (type, name/value/op) in traversal order.
func dstShape(n dst.Node) []string {
	var out []string
	dst.Inspect(n, func(x dst.Node) bool {
		if refl.IsNil(x) {
			return false
		}
		out = append(out, shapeOf(x))
		return true
	})
	if _, ok := n.(*dst.Package); ok {
		return sortedFileBlocks(out)
	}
	return out
}

func astShape(n ast.Node) []string {
	var out []string
	ast.Inspect(n, func(x ast.Node) bool {
		switch x.(type) {
		case nil:
			return false
		case *ast.CommentGroup, *ast.Comment:
			return false
		}
		if refl.IsNil(x) {
			return false
		}
		out = append(out, shapeOf(x))
		return true
	})
	if _, ok := n.(*ast.Package); ok {
		return sortedFileBlocks(out)
	}
	return out
}

// sortedFileBlocks makes the shape of a package independent of map iteration order.
func sortedFileBlocks(s []string) []string {
	var head []string
	var blocks []string
	cur := ""
	for _, e := range s {
		if strings.HasPrefix(e, "File") {
			if cur != "" {
				blocks = append(blocks, cur)
			}
			cur = e
			continue
		}
		if cur == "" {
			head = append(head, e)
		} else {
			cur += "|" + e
		}
	}
	if cur != "" {
		blocks = append(blocks, cur)
	}
	sort.Strings(blocks)
	return append(head, blocks...)
}

func shapeOf(x interface{}) string {
	v := reflect.ValueOf(x).Elem()
	s := v.Type().Name()
	for _, fn := range []string{"Name", "Value", "Tok", "Op", "Dir"} {
		f := v.FieldByName(fn)
		if f.IsValid() && (f.Kind() == reflect.String || f.Kind() == reflect.Int) {
			s += fmt.Sprintf(":%v", f.Interface())
		}
	}
	return s
}

func runC14(c *fw.Ctx) {
	files := corpus.Sample(c.Rand("files"), c.Pick(120, 3000))
	densities := []uint32{0, 3, 10, 30, 60}
	// the construct snippets (rare node kinds in rare places: type literals as list elements, range
	// statements with odd keys, ...) under many scripts each
	snips := layoutZoo()
	var skeys []string
	for k := range snips {
		skeys = append(skeys, k)
	}
	sort.Strings(skeys)
	for si, k := range skeys {
		if !c.Mine(si) {
			continue
		}
		src := snips[k]
		for sc := 0; sc < c.Pick(12, 80); sc++ {
			id := fmt.Sprintf("snippet:%s/script%d", k, sc)
			c.Case(id, func() {
				fset := token.NewFileSet()
				af, err := parser.ParseFile(fset, k+".go", src, 0)
				if err != nil {
					return
				}
				d := decorator.NewDecorator(fset)
				df, err := d.DecorateFile(af)
				if err != nil {
					return
				}
				seed := uint32(c.Seed)*2741 + uint32(sc)*7919 + uint32(si)*31
				c14Run(c, id, df, af, d, seed, densities[1+sc%4], src)
			})
		}
	}
	for i, p := range files {
		if !c.Mine(i) {
			continue
		}
		src := readFile(p)
		if src == nil || len(src) > 80000 {
			continue
		}
		nscripts := c.Pick(5, 30)
		for k := 0; k < nscripts; k++ {
			id := fmt.Sprintf("file:%s/script%d", corpus.Rel(p), k)
			c.Case(id, func() {
				fset := token.NewFileSet()
				af, err := parser.ParseFile(fset, filepath.Base(p), src, 0)
				if err != nil {
					return
				}
				d := decorator.NewDecorator(fset)
				df, err := d.DecorateFile(af)
				if err != nil {
					return
				}
				seed := uint32(c.Seed)*7919 + uint32(k)*104729 + uint32(i)
				c14Run(c, id, df, af, d, seed, densities[k%len(densities)], string(src))
			})
		}
		// root scripts: the root itself (the file, or one of its declarations taken as the root of
		// its own Apply call) is replaced in pre, post or both, and post aborts at the root or below
		for k := 0; k < c.Pick(3, 12); k++ {
			id := fmt.Sprintf("file:%s/rootscript%d", corpus.Rel(p), k)
			c.Case(id, func() {
				fset := token.NewFileSet()
				af, err := parser.ParseFile(fset, filepath.Base(p), src, 0)
				if err != nil {
					return
				}
				d := decorator.NewDecorator(fset)
				df, err := d.DecorateFile(af)
				if err != nil {
					return
				}
				seed := uint32(c.Seed)*6007 + uint32(k)*15485863 + uint32(i)
				var dr dst.Node = df
				var ar ast.Node = af
				if k%2 == 1 && len(af.Decls) > 0 {
					j := int(seed) % len(af.Decls)
					dr, ar = df.Decls[j], af.Decls[j]
				}
				c14RunMode(c, id, dr, ar, d, seed, []uint32{0, 2, 8}[k%3], string(src), true)
			})
		}
	}
	// packages
	dirs := map[string]bool{}
	for _, p := range files {
		dirs[filepath.Dir(p)] = true
	}
	var dl []string
	for d := range dirs {
		dl = append(dl, d)
	}
	sort.Strings(dl)
	if len(dl) > c.Pick(20, 300) {
		dl = dl[:c.Pick(20, 300)]
	}
	for i, dir := range dl {
		if !c.Mine(i) {
			continue
		}
		for k := 0; k < 3; k++ {
			id := fmt.Sprintf("dir:%s/script%d", corpus.Rel(dir), k)
			c.Case(id, func() {
				fset := token.NewFileSet()
				pkgs, err := parser.ParseDir(fset, dir, nil, 0)
				if err != nil {
					return
				}
				for name, ap := range pkgs {
					d := decorator.NewDecorator(fset)
					dn, err := d.DecorateNode(ap)
					if err != nil {
						continue
					}
					c.Count("packages", 1)
					c14Run(c, id+"/"+name, dn, ap, d, uint32(c.Seed)*31+uint32(k)*977+uint32(i), []uint32{0, 10, 40}[k], "")
				}
			})
		}
	}
}

func c14Run(c *fw.Ctx, id string, droot dst.Node, aroot ast.Node, d *decorator.Decorator, seed, density uint32, src string) {
	c14RunMode(c, id, droot, aroot, d, seed, density, src, false)
}

func c14RunMode(c *fw.Ctx, id string, droot dst.Node, aroot ast.Node, d *decorator.Decorator, seed, density uint32, src string, rootMode bool) {
	ds := &c14Side{types: dstTypes, ids: map[interface{}]int{}, seed: seed, density: density, ops: map[string]int{}, preSeen: map[int]int{}, rootMode: rootMode}
	as := &c14Side{types: astTypes, ids: map[interface{}]int{}, seed: seed, density: density, ops: map[string]int{}, preSeen: map[int]int{}, rootMode: rootMode}
	n := 0
	ast.Inspect(aroot, func(x ast.Node) bool {
		if x == nil {
			return false
		}
		n++
		as.ids[x] = n
		if dn, ok := d.Dst.Nodes[x]; ok {
			ds.ids[dn] = n
		}
		return true
	})
	// hand-made holes: in a quarter of the runs the last name of every value spec / field with two
	// or more names is a nil identifier on both sides (a list element that is nil is still an
	// element: astutil calls back for it with a nil Node and a valid Index)
	holes := 0
	if !rootMode && seed%4 == 1 {
		ast.Inspect(aroot, func(x ast.Node) bool {
			switch v := x.(type) {
			case *ast.ValueSpec:
				if dv, ok := d.Dst.Nodes[v].(*dst.ValueSpec); ok && len(v.Names) >= 2 && len(dv.Names) == len(v.Names) && len(v.Values) == 0 {
					v.Names[len(v.Names)-1], dv.Names[len(dv.Names)-1] = nil, nil
					holes++
				}
			case *ast.Field:
				if dv, ok := d.Dst.Nodes[v].(*dst.Field); ok && len(v.Names) >= 2 && len(dv.Names) == len(v.Names) {
					v.Names[len(v.Names)-1], dv.Names[len(dv.Names)-1] = nil, nil
					holes++
				}
			}
			return true
		})
	}
	invariantBroken := ""
	dpre := func(cu *dstutil.Cursor) bool {
		return ds.on("pre", cu.Node(), cu.Parent(), cu.Name(), cu.Index(), dstCur{cu})
	}
	dpost := func(cu *dstutil.Cursor) bool {
		return ds.on("post", cu.Node(), cu.Parent(), cu.Name(), cu.Index(), dstCur{cu})
	}
	apre := func(cu *astutil.Cursor) bool {
		return as.on("pre", cu.Node(), cu.Parent(), cu.Name(), cu.Index(), astCur{cu})
	}
	apost := func(cu *astutil.Cursor) bool {
		return as.on("post", cu.Node(), cu.Parent(), cu.Name(), cu.Index(), astCur{cu})
	}
	var dres dst.Node
	var ares ast.Node
	dsig, ddetail := fw.Try(func() { dres = dstutil.Apply(droot, dpre, dpost) })
	asig, _ := fw.Try(func() { ares = astutil.Apply(aroot, apre, apost) })
	viol := func(rule, sig, detail string) {
		c.Violate(rule, sig, fmt.Sprintf("%s (seed %d density %d%%): %s", id, seed, density, detail), src)
	}
	// a nil child slot gets its pre and its post callback (this script lets pre return true for
	// nil nodes); only judged for runs that neither aborted nor panicked, as astutil is the reference
	if dsig == "" && asig == "" && ds.ops["post-false"] == 0 && as.nilPre == as.nilPost && ds.nilPre != ds.nilPost {
		viol("nil-slot-callbacks", "nil-slot-callbacks", fmt.Sprintf("callbacks on nil child slots: dstutil pre %d / post %d, astutil pre %d / post %d", ds.nilPre, ds.nilPost, as.nilPre, as.nilPost))
	}
	if dsig == "" && asig == "" && ds.ops["post-false"] == 0 && ds.ops["pre-false"] == 0 && as.ops["pre-false"] == 0 && holes > 0 {
		c.Count("runs_with_nil_list_elements", 1)
		if ds.nilListElems != as.nilListElems && len(ds.log) == len(as.log) {
			viol("nil-list-elements", "nil-list-elements", fmt.Sprintf("%d list elements were made nil on both sides: dstutil called back for %d nil elements, astutil for %d", holes, ds.nilListElems, as.nilListElems))
		}
	}
	if ds.nilPackageChildren != as.nilPackageChildren {
		viol("package-children", "package-children:nil", fmt.Sprintf("callbacks with the package as parent and a nil node: dstutil %d, astutil %d (a package's children are exactly its files)", ds.nilPackageChildren, as.nilPackageChildren))
	}
	if (dsig == "") != (asig == "") {
		viol("panic-parity", "panic-parity", fmt.Sprintf("dstutil panic=%q astutil panic=%q\n%s", dsig, asig, ddetail))
		return
	}
	// the documented cursor invariant must hold at every pre callback (before the script has touched
	// the element); at post callbacks it is compared with astutil through the log (Inv field)
	for _, e := range ds.log {
		if e.Phase == "pre" && !e.Inv {
			invariantBroken = fmt.Sprintf("%+v", e)
			break
		}
	}
	if invariantBroken != "" {
		viol("cursor-invariant", "cursor-invariant", "Parent.Name[Index] != Node at "+invariantBroken)
	}
	// logs
	m := len(ds.log)
	if len(as.log) < m {
		m = len(as.log)
	}
	for i := 0; i < m; i++ {
		if ds.log[i] != as.log[i] {
			viol("log-differs", "log-differs:"+ds.log[i].Phase+":"+as.log[i].Type+"."+as.log[i].Name, fmt.Sprintf("callback #%d: dstutil %+v, astutil %+v (ops so far dst=%v ast=%v)", i, ds.log[i], as.log[i], ds.ops, as.ops))
			return
		}
	}
	if len(ds.log) != len(as.log) {
		viol("log-differs", "log-differs:length", fmt.Sprintf("dstutil made %d callbacks on non-nil nodes, astutil %d", len(ds.log), len(as.log)))
		return
	}
	// Direct reading of the statement ("inserted and replacement nodes are never visited, no
	// original visited twice"): astutil itself does not satisfy it for every operation sequence
	// (Delete followed by InsertAfter on one cursor makes astutil visit the inserted node), and the
	// statement names astutil as the reference, so these are counted, not judged; any deviation of
	// dstutil from astutil already shows in the log comparison above.
	seen := map[int]bool{}
	for _, e := range ds.log {
		if e.ID < 0 {
			c.Count("astutil_semantics:created_node_visited", 1)
		}
		if e.Phase == "pre" {
			if seen[e.ID] {
				c.Count("astutil_semantics:visited_twice", 1)
			}
			seen[e.ID] = true
		}
	}
	if dsig == "" {
		if refl.IsNil(dres) != refl.IsNil(ares) {
			viol("result-root", "result-root", "one side returned a nil root")
		} else if !refl.IsNil(dres) {
			a, b := dstShape(dres), astShape(ares)
			if i := firstDiff(a, b); i >= 0 {
				viol("final-tree-differs", "final-tree-differs", fmt.Sprintf("shape differs at node %d: dst %s, ast %s", i, at(a, i), at(b, i)))
			}
		}
	}
	edits := 0
	for op, k := range ds.ops {
		c.Observe("ops_executed", op)
		c.Count("op:"+op, int64(k))
		if op != "pre-false" && op != "post-false" {
			edits += k
		}
	}
	if dsig != "" {
		c.Count("both_panicked", 1)
		c.Count("both_panicked:"+strings.SplitN(dsig, " @", 2)[0], 1)
	}
	c.Count("callbacks_compared", int64(len(ds.log)))
	if edits > 0 {
		c.Nontrivial(id)
	}
	if density == 30 {
		c.Sample(map[string]interface{}{"case": id, "seed": seed, "density": density, "callbacks": len(ds.log), "ops": ds.ops})
	}
}

func firstDiff(a, b []string) int {
	n := len(a)
	if len(b) < n {
		n = len(b)
	}
	for i := 0; i < n; i++ {
		if a[i] != b[i] {
			return i
		}
	}
	if len(a) != len(b) {
		return n
	}
	return -1
}

// c14Invariant checks Parent.Name[Index] == Node by reflection (works for dst and ast alike).
func c14Invariant(node, parent interface{}, name string, index int) string {
	pv := reflect.Indirect(reflect.ValueOf(parent))
	if pv.Type().Name() == "Package" {
		f := pv.FieldByName("Files").MapIndex(reflect.ValueOf(name))
		if !f.IsValid() || f.Interface() != node {
			return fmt.Sprintf("Package.Files[%q] != Node", name)
		}
		return ""
	}
	f := pv.FieldByName(name)
	if !f.IsValid() {
		return fmt.Sprintf("parent %T has no field %q", parent, name)
	}
	if index >= 0 {
		if f.Kind() != reflect.Slice || index >= f.Len() {
			return fmt.Sprintf("%T.%s[%d] out of range", parent, name, index)
		}
		f = f.Index(index)
	} else if f.Kind() == reflect.Slice {
		return fmt.Sprintf("%T.%s is a list but Index() < 0", parent, name)
	}
	if f.Interface() != node {
		return fmt.Sprintf("%T.%s[%d] is not the cursor's node (%T)", parent, name, index, node)
	}
	return ""
}
