package props

import (
	"bytes"
	"errors"
	"fmt"
	"go/ast"
	"go/parser"
	"go/token"
	"os"
	"path/filepath"
	"sort"
	"strings"

	"github.com/dave/dst"
	"github.com/dave/dst/decorator"
	"github.com/dave/dst/decorator/resolver"
	"github.com/dave/dst/decorator/resolver/goast"
	"github.com/dave/dst/decorator/resolver/guess"
	"github.com/dave/dst/decorator/resolver/simple"

	"verif/internal/corpus"
	"verif/internal/fw"
	"verif/internal/refl"
)

func init() {
	fw.Register(&fw.Check{
		ID:    "C17",
		Level: "fault_enumeration",
		Rule: "cases: corpus files with imports; a clean run measures K = number of resolver calls and the reference result, then the fault is injected at call k for every k <= K when " +
			"K <= 48, else for k in 1..24 plus 24 seeded k. Faults: (a) identifier resolver (wrapper around goast) fails at its k-th ResolveIdent during decoration; (b) package-name " +
			"resolver fails at its k-th ResolvePackage during an import-managed restore of a tree edited to need import additions, deletions and renames; (c) the package-name " +
			"resolver inside goast fails (failure inside the shared import cache); (d) simple.RestorerResolver genuinely lacks a path; (e) sequences fail@k1 -> retry fail@k2 -> retry clean. " +
			"Monitors: no panic; error non-nil and errors.Is(err, injected sentinel); zero bytes written to the writer; reflection snapshot of the input tree (ast + file set size for " +
			"decorate, dst for restore) unchanged; retry with fresh decorator/restorer and working resolver equals the failure-free tree / bytes. " +
			"distinct_nontrivial = distinct (file, fault kind, k) executed with K >= 2.",
		Floor: 300,
		Run:   runC17,
		Assumptions: []string{
			"'tree unmodified' is decided by a structural reflection snapshot taken by the monitor before the call",
			"the order of ResolvePackage calls follows map iteration, so fail-at-k hits a different package from run to run; every k is covered, not every (k, package) pair",
		},
		Required: map[string]int{"fault_kinds": 11},
	})
}

var errInjected = errors.New("verif: injected resolver failure")

type failingIdentResolver struct {
	inner  resolver.DecoratorResolver
	calls  int
	failAt int
}

func (f *failingIdentResolver) ResolveIdent(file *ast.File, parent ast.Node, parentField string, id *ast.Ident) (string, error) {
	f.calls++
	if f.calls == f.failAt {
		if f.failAt%2 == 0 {
			// the failure is (also) the library's own "package not found" sentinel
			return "", fmt.Errorf("ident resolver call %d: %w (%w)", f.calls, errInjected, resolver.ErrPackageNotFound)
		}
		return "", fmt.Errorf("ident resolver call %d: %w", f.calls, errInjected)
	}
	return f.inner.ResolveIdent(file, parent, parentField, id)
}

type failingPkgResolver struct {
	inner  resolver.RestorerResolver
	calls  int
	failAt int
	paths  []string
}

func (f *failingPkgResolver) ResolvePackage(path string) (string, error) {
	f.calls++
	f.paths = append(f.paths, path)
	if f.calls == f.failAt {
		if f.failAt%2 == 0 {
			return "", fmt.Errorf("package resolver call %d (%s): %w (%w)", f.calls, path, errInjected, resolver.ErrPackageNotFound)
		}
		return "", fmt.Errorf("package resolver call %d (%s): %w", f.calls, path, errInjected)
	}
	return f.inner.ResolvePackage(path)
}

func faultPoints(c *fw.Ctx, label string, K int) []int {
	var ks []int
	if K <= 48 {
		for k := 1; k <= K; k++ {
			ks = append(ks, k)
		}
		return ks
	}
	for k := 1; k <= 24; k++ {
		ks = append(ks, k)
	}
	r := c.Rand(label)
	seen := map[int]bool{}
	for len(ks) < 47 {
		k := 25 + r.Intn(K-24)
		if !seen[k] {
			seen[k] = true
			ks = append(ks, k)
		}
	}
	ks = append(ks, K)
	sort.Ints(ks)
	return ks
}

// c17Edit changes the import needs of a decorated file: some local calls become remote (new
// packages), all references to one imported package are made local (deletion), and a package with
// the name of an existing one is introduced (rename).
func c17Edit(df *dst.File) {
	k := 0
	var firstPath string
	dst.Inspect(df, func(x dst.Node) bool {
		switch x := x.(type) {
		case *dst.CallExpr:
			if idn, ok := x.Fun.(*dst.Ident); ok {
				k++
				switch {
				case idn.Path == "" && k%4 == 0:
					idn.Path = "example.com/added/alpha"
				case idn.Path == "" && k%4 == 1:
					idn.Path = "example.org/other/fmt" // clashes with "fmt" if present
				case idn.Path == "" && k%4 == 2:
					idn.Path = "added/beta"
				case idn.Path != "" && firstPath == "":
					firstPath = idn.Path
				}
			}
		}
		return true
	})
	if firstPath != "" {
		dst.Inspect(df, func(x dst.Node) bool {
			if idn, ok := x.(*dst.Ident); ok && idn.Path == firstPath {
				idn.Path = ""
			}
			return true
		})
	}
}

func runC17(c *fw.Ctx) {
	// synthetic sources with constructs whose declarations are reached out of order (a forward goto
	// decorates its labelled statement from inside the branch statement)
	if c.Shard == 0 {
		for k, src := range []string{
			"package p\n\nimport (\n\t\"fmt\"\n\t\"os\"\n)\n\nfunc f(n int) {\n\tif n > 0 {\n\t\tgoto done\n\t}\n\tfmt.Println(n)\nouter:\n\tfor i := 0; i < n; i++ {\n\t\tcontinue outer\n\t}\ndone:\n\tfmt.Fprintln(os.Stderr, os.Args, fmt.Sprint(n))\n}\n",
			"package p\n\nimport \"strings\"\n\nfunc g(s string) string {\n\tgoto a\nb:\n\treturn strings.ToUpper(strings.TrimSpace(s))\na:\n\ts = strings.Repeat(s, 2)\n\tgoto b\n}\n",
		} {
			id := fmt.Sprintf("synthetic:forward-goto-%d", k)
			c17Decorate(c, id, fmt.Sprintf("goto%d.go", k), []byte(src))
			c17Restore(c, id, []byte(src))
		}
	}
	var files []string
	for _, p := range corpus.Sample(c.Rand("files"), c.Pick(1200, 0)) {
		files = append(files, p)
	}
	taken := 0
	limit := c.Pick(220, 4000)
	for i, p := range files {
		if !c.Mine(i) {
			continue
		}
		if taken >= limit/c.NShards+1 {
			break
		}
		src := readFile(p)
		if src == nil || len(src) > 40000 || !bytes.Contains(src, []byte("import")) {
			continue
		}
		id := "file:" + corpus.Rel(p)
		taken++
		c17Decorate(c, id, filepath.Base(p), src)
		c17Restore(c, id, src)
	}
}

func c17Decorate(c *fw.Ctx, id, name string, src []byte) {
	parse := func() (*token.FileSet, *ast.File) {
		fset := token.NewFileSet()
		af, err := parser.ParseFile(fset, name, src, parser.ParseComments)
		if err != nil {
			return nil, nil
		}
		return fset, af
	}
	fset, af := parse()
	if af == nil {
		return
	}
	clean := &failingIdentResolver{inner: goast.New()}
	d := decorator.NewDecoratorWithImports(fset, "example.com/self", clean)
	ref, err := d.DecorateFile(af)
	if err != nil {
		c.Count("inconclusive_clean_decorate_fails", 1) // dot-import etc.
		// (c) still applies: failure inside goast's cache
		return
	}
	K := clean.calls
	if K == 0 {
		return
	}
	c.Max("K_ident", int64(K))
	refOut, _ := printWithImports(ref)
	for _, k := range faultPoints(c, id+"/dec", K) {
		cid := fmt.Sprintf("%s/decorate-fail@%d", id, k)
		c.Case(cid, func() {
			c.Observe("fault_kinds", "ident-resolver")
			fset, af := parse()
			snap := refl.DeepCopy(af)
			nfiles := countFiles(fset)
			fr := &failingIdentResolver{inner: goast.New(), failAt: k}
			d := decorator.NewDecoratorWithImports(fset, "example.com/self", fr)
			var out *dst.File
			var err error
			if sig, detail := fw.Try(func() { out, err = d.DecorateFile(af) }); sig != "" {
				c.Violate("panic-on-fault", sig, cid+"\n"+detail, string(src))
				return
			}
			c17Verdict(c, cid, "decorate", err, out != nil, 0, string(src))
			if dd := refl.DeepEqualDst(af, snap); dd != "" {
				c.Violate("input-modified", "input-modified:decorate", cid+": the ast changed: "+dd, string(src))
			}
			if countFiles(fset) != nfiles {
				c.Violate("input-modified", "input-modified:fileset", cid+": the file set gained files", string(src))
			}
			// retry: fresh decorator, working resolver, same ast
			d2 := decorator.NewDecoratorWithImports(fset, "example.com/self", goast.New())
			out2, err2 := d2.DecorateFile(af)
			if err2 != nil {
				c.Violate("retry-fails", "retry-fails:decorate", cid+": "+err2.Error(), string(src))
				return
			}
			got, _ := printWithImports(out2)
			if got != refOut {
				c.Violate("retry-differs", "retry-differs:decorate", cid+": retry output differs from the failure-free output", string(src))
			}
			if dd := refl.DeepEqualDst(out2, ref); dd != "" {
				c.Violate("retry-differs", "retry-differs:decorate-tree", cid+": "+dd, string(src))
			}
			if K >= 2 {
				c.Nontrivial(cid)
			}
		})
	}
	// (c2) the shared goast instance is kept: its package-name resolver fails once at call k and
	// works afterwards; the retry uses a fresh decorator on the same *ast.File with the same goast
	// (a resolver is neither decorator nor restorer: it is the "working resolver" of the retry)
	{
		fset0, af0 := parse()
		probe := &failingPkgResolver{inner: guess.New()}
		_, _ = decorator.NewDecoratorWithImports(fset0, "example.com/self", goast.WithResolver(probe)).DecorateFile(af0)
		for k := 1; k <= probe.calls && k <= 12; k++ {
			cid2 := fmt.Sprintf("%s/goast-kept-inner-fails@%d", id, k)
			c.Case(cid2, func() {
				c.Observe("fault_kinds", "goast-kept-across-retry")
				fset, af := parse()
				inner := &failingPkgResolver{inner: guess.New(), failAt: k}
				shared := goast.WithResolver(inner)
				_, err := decorator.NewDecoratorWithImports(fset, "example.com/self", shared).DecorateFile(af)
				c17Verdict(c, cid2, "decorate", err, false, 0, string(src))
				out2, err2 := decorator.NewDecoratorWithImports(fset, "example.com/self", shared).DecorateFile(af)
				if err2 != nil {
					c.Violate("retry-fails", "retry-fails:goast-kept", cid2+": "+err2.Error(), string(src))
					return
				}
				if got, _ := printWithImports(out2); got != refOut {
					c.Violate("retry-differs", "retry-differs:goast-kept", cid2+": retry with the same goast instance differs from the failure-free output", string(src))
				}
				if dd := refl.DeepEqualDst(out2, ref); dd != "" {
					c.Violate("retry-differs", "retry-differs:goast-kept-tree", cid2+": "+dd, string(src))
				}
				c.Nontrivial(cid2)
			})
		}
	}
	// (f) the parsing entry point on a source that also has a (recoverable) syntax error: the
	// partial file is decorated, so the resolver is consulted and its failure must still surface
	{
		broken := append(append([]byte{}, src...), "\nvar zzBroken = )\n\nfunc zzAfter() {}\n"...)
		probe := &failingIdentResolver{inner: goast.New()}
		var refTree *dst.File
		var refErr error
		fw.Try(func() {
			refTree, refErr = decorator.NewDecoratorWithImports(token.NewFileSet(), "example.com/self", probe).Parse(broken)
		})
		if refTree != nil && refErr != nil && probe.calls > 0 {
			refOut2, _ := printWithImports(refTree)
			ks := []int{1, (probe.calls + 1) / 2, probe.calls}
			for ki, k := range ks {
				if ki > 0 && k == ks[ki-1] {
					continue
				}
				cidf := fmt.Sprintf("%s/parse-with-syntax-error-fail@%d", id, k)
				c.Case(cidf, func() {
					c.Observe("fault_kinds", "ident-resolver-in-parse-with-syntax-error")
					fr := &failingIdentResolver{inner: goast.New(), failAt: k}
					var out *dst.File
					var err error
					if sig, detail := fw.Try(func() {
						out, err = decorator.NewDecoratorWithImports(token.NewFileSet(), "example.com/self", fr).Parse(broken)
					}); sig != "" {
						c.Violate("panic-on-fault", sig, cidf+"\n"+detail, string(broken))
						return
					}
					if fr.calls < k {
						c.Count("fault_point_not_reached", 1)
						return
					}
					c17Verdict(c, cidf, "parse", err, out != nil, 0, string(broken))
					// retry with a working resolver: the same tree and the same syntax error as without a fault
					out2, err2 := decorator.NewDecoratorWithImports(token.NewFileSet(), "example.com/self", goast.New()).Parse(broken)
					if out2 == nil || err2 == nil || err2.Error() != refErr.Error() {
						c.Violate("retry-differs", "retry-differs:parse", fmt.Sprintf("%s: retry gave tree=%v err=%v, the failure-free run a tree and %v", cidf, out2 != nil, err2, refErr), string(broken))
						return
					}
					if got, _ := printWithImports(out2); got != refOut2 {
						c.Violate("retry-differs", "retry-differs:parse", cidf+": retry output differs from the failure-free output", string(broken))
					}
					c.Nontrivial(cidf)
				})
			}
		}
	}
	// (g) the file as part of an *ast.Package built by go/ast (package scope with objects whose
	// declarations are decorated through the scope, before the files): identifier resolver fails at k
	{
		mkpkg := func() (*token.FileSet, *ast.Package) {
			fset := token.NewFileSet()
			af, err := parser.ParseFile(fset, name, src, parser.ParseComments)
			if err != nil {
				return nil, nil
			}
			extra := "package " + af.Name.Name + "\n\nimport \"strings\"\n\nvar zzExtra = strings.ToUpper(\"x\")\n\nfunc zzUse() string { return zzExtra + strings.Repeat(\"y\", 2) }\n"
			bf, err := parser.ParseFile(fset, "zz_extra.go", extra, parser.ParseComments)
			if err != nil {
				return nil, nil
			}
			pkg, _ := ast.NewPackage(fset, map[string]*ast.File{name: af, "zz_extra.go": bf}, nil, nil)
			return fset, pkg
		}
		fsetP, pkgP := mkpkg()
		if pkgP != nil {
			probe := &failingIdentResolver{inner: goast.New()}
			var refPkg dst.Node
			var refErr error
			fw.Try(func() {
				refPkg, refErr = decorator.NewDecoratorWithImports(fsetP, "example.com/self", probe).DecorateNode(pkgP)
			})
			if refPkg != nil && refErr == nil && probe.calls > 0 {
				printPkg := func(n dst.Node) string {
					out := ""
					pk := n.(*dst.Package)
					for _, fn := range []string{name, "zz_extra.go"} {
						if df := pk.Files[fn]; df != nil {
							s, _ := printWithImports(df)
							out += "// " + fn + "\n" + s
						}
					}
					return out
				}
				refOutP := printPkg(refPkg)
				K := probe.calls
				ks := []int{1, 2, (K + 1) / 2, K - 1, K}
				seen := map[int]bool{}
				for _, k := range ks {
					if k < 1 || k > K || seen[k] {
						continue
					}
					seen[k] = true
					cidg := fmt.Sprintf("%s/package-scope-fail@%d", id, k)
					c.Case(cidg, func() {
						c.Observe("fault_kinds", "ident-resolver-in-package-with-scope")
						fset, pkg := mkpkg()
						if pkg == nil {
							return
						}
						fr := &failingIdentResolver{inner: goast.New(), failAt: k}
						var out dst.Node
						var err error
						if sig, detail := fw.Try(func() {
							out, err = decorator.NewDecoratorWithImports(fset, "example.com/self", fr).DecorateNode(pkg)
						}); sig != "" {
							c.Violate("panic-on-fault", sig, cidg+"\n"+detail, string(src))
							return
						}
						if fr.calls < k {
							c.Count("fault_point_not_reached", 1)
							return
						}
						c17Verdict(c, cidg, "decorate-package", err, !refl.IsNil(out), 0, string(src))
						out2, err2 := decorator.NewDecoratorWithImports(fset, "example.com/self", goast.New()).DecorateNode(pkg)
						if err2 != nil || refl.IsNil(out2) {
							c.Violate("retry-fails", "retry-fails:decorate-package", fmt.Sprintf("%s: %v", cidg, err2), string(src))
							return
						}
						if got := printPkg(out2); got != refOutP {
							c.Violate("retry-differs", "retry-differs:decorate-package", cidg+": retry output differs from the failure-free output", string(src))
						}
						c.Nontrivial(cidg)
					})
				}
			}
		}
	}
	// (b2') single declarations decorated on their own (DecorateNode on something that is not a file)
	c17Isolated(c, id, name, src)
	// (b2'') a package built by go/ast with an importer whose package objects expose the imported
	// package's scope (objects with declarations): those are decorated through Package.Imports
	c17ImportsPhase(c, id, name, src)
	// (b3) the same file read from a directory: Decorator.ParseDir with a failing identifier resolver,
	// and with a failing package-name resolver inside the syntax-only resolver
	if strings.HasSuffix(name, ".go") && !strings.HasSuffix(name, "_test.go") && len(src) < 40000 {
		c17ParseDir(c, id, name, src)
	}
	// (c) failure inside goast's package-name resolver
	cid := id + "/goast-inner-resolver-fails"
	c.Case(cid, func() {
		c.Observe("fault_kinds", "goast-inner-package-resolver")
		fset, af := parse()
		inner := &failingPkgResolver{inner: guess.New(), failAt: 1}
		shared := goast.WithResolver(inner)
		d := decorator.NewDecoratorWithImports(fset, "example.com/self", shared)
		var out *dst.File
		var err error
		if sig, detail := fw.Try(func() { out, err = d.DecorateFile(af) }); sig != "" {
			c.Violate("panic-on-fault", sig, cid+"\n"+detail, string(src))
			return
		}
		if inner.calls == 0 {
			c.Count("inner_resolver_never_called", 1) // only aliased imports
			return
		}
		c17Verdict(c, cid, "decorate", err, out != nil, 0, string(src))
		d2 := decorator.NewDecoratorWithImports(fset, "example.com/self", goast.New())
		out2, err2 := d2.DecorateFile(af)
		if err2 != nil {
			c.Violate("retry-fails", "retry-fails:goast", cid+": "+err2.Error(), string(src))
			return
		}
		if got, _ := printWithImports(out2); got != refOut {
			c.Violate("retry-differs", "retry-differs:goast", cid+": retry differs", string(src))
		}
		c.Nontrivial(cid)
	})
}

// c17Table is a syntax-only identifier resolver that needs no *ast.File: the qualifier names are
// given to it.
type c17Table map[string]string

func (t c17Table) ResolveIdent(file *ast.File, parent ast.Node, parentField string, id *ast.Ident) (string, error) {
	if se, ok := parent.(*ast.SelectorExpr); ok && parentField == "Sel" {
		if x, ok := se.X.(*ast.Ident); ok && x.Obj == nil {
			return t[x.Name], nil
		}
	}
	return "", nil
}

// c17Isolated decorates the first declarations of a file one at a time with DecorateNode and
// injects identifier-resolver failures.
func c17Isolated(c *fw.Ctx, id, name string, src []byte) {
	fset := token.NewFileSet()
	af, err := parser.ParseFile(fset, name, src, parser.ParseComments)
	if err != nil {
		return
	}
	table := c17Table{}
	for _, im := range af.Imports {
		p := strings.Trim(im.Path.Value, "\"`")
		n := p[strings.LastIndex(p, "/")+1:]
		if im.Name != nil {
			n = im.Name.Name
		}
		if n != "_" && n != "." {
			table[n] = p
		}
	}
	paths := func(n dst.Node) string {
		var sb strings.Builder
		dst.Inspect(n, func(x dst.Node) bool {
			if i, ok := x.(*dst.Ident); ok {
				sb.WriteString(i.Name + "@" + i.Path + " ")
			}
			return true
		})
		return sb.String()
	}
	done := 0
	for di, decl := range af.Decls {
		if gd, ok := decl.(*ast.GenDecl); ok && gd.Tok == token.IMPORT {
			continue
		}
		if done >= 3 {
			break
		}
		probe := &failingIdentResolver{inner: table}
		var ref dst.Node
		var refErr error
		if sig, _ := fw.Try(func() { ref, refErr = decorator.NewDecoratorWithImports(fset, "example.com/self", probe).DecorateNode(decl) }); sig != "" || refErr != nil || refl.IsNil(ref) {
			continue
		}
		K := probe.calls
		if K == 0 {
			continue
		}
		done++
		refPaths := paths(ref)
		seen := map[int]bool{}
		for _, k := range []int{1, 2, (K + 1) / 2, K} {
			if k < 1 || k > K || seen[k] {
				continue
			}
			seen[k] = true
			cid := fmt.Sprintf("%s/isolated-decl%d-fail@%d", id, di, k)
			c.Case(cid, func() {
				c.Observe("fault_kinds", "ident-resolver-on-isolated-node")
				fr := &failingIdentResolver{inner: table, failAt: k}
				var out dst.Node
				var err error
				if sig, detail := fw.Try(func() { out, err = decorator.NewDecoratorWithImports(fset, "example.com/self", fr).DecorateNode(decl) }); sig != "" {
					c.Violate("panic-on-fault", sig, cid+"\n"+detail, string(src))
					return
				}
				if fr.calls < k {
					c.Count("fault_point_not_reached", 1)
					return
				}
				c17Verdict(c, cid, "decorate-node", err, !refl.IsNil(out), 0, string(src))
				out2, err2 := decorator.NewDecoratorWithImports(fset, "example.com/self", table).DecorateNode(decl)
				if err2 != nil || refl.IsNil(out2) {
					c.Violate("retry-fails", "retry-fails:decorate-node", fmt.Sprintf("%s: %v", cid, err2), string(src))
					return
				}
				if paths(out2) != refPaths {
					c.Violate("retry-differs", "retry-differs:decorate-node", cid+": retry gives other identifier paths than the failure-free run", string(src))
				}
				c.Nontrivial(cid)
			})
		}
	}
}

// c17ImportsPhase decorates an *ast.Package whose Imports map leads to declarations of another
// package (as a source-based importer builds them) and injects identifier-resolver failures.
func c17ImportsPhase(c *fw.Ctx, id, name string, src []byte) {
	mk := func() (*token.FileSet, *ast.Package) {
		fset := token.NewFileSet()
		// (the second import is not referred to by the code: its package object is first met when
		// the Imports map is decorated)
		extra := "package zz\n\nimport \"example.com/lib\"\nimport _ \"example.com/other\"\n\nvar zzExtra = lib.Upper(\"x\")\n\nfunc zzUse() string { return zzExtra + lib.Twice(\"y\") }\n"
		bf, err := parser.ParseFile(fset, "zz_extra.go", extra, parser.ParseComments)
		if err != nil {
			return nil, nil
		}
		libSrc := "package lib\n\nimport \"unicode\"\n\nfunc Upper(s string) string { return string(unicode.ToUpper(rune(s[0]))) }\n\nfunc Twice(s string) string { return s + s + string(unicode.MaxRune) }\n\nvar Table = unicode.Latin\n"
		lf, err := parser.ParseFile(fset, "lib.go", libSrc, parser.ParseComments)
		if err != nil {
			return nil, nil
		}
		importer := func(imports map[string]*ast.Object, path string) (*ast.Object, error) {
			if o := imports[path]; o != nil {
				return o, nil
			}
			po := ast.NewObj(ast.Pkg, "lib")
			sc := ast.NewScope(nil)
			decls := lf.Decls
			if strings.HasSuffix(path, "other") {
				of, err := parser.ParseFile(fset, "other.go", strings.Replace(libSrc, "package lib", "package other", 1), parser.ParseComments)
				if err != nil {
					return nil, err
				}
				decls = of.Decls
			}
			for _, d := range decls {
				switch v := d.(type) {
				case *ast.FuncDecl:
					o := ast.NewObj(ast.Fun, v.Name.Name)
					o.Decl = v
					sc.Insert(o)
				case *ast.GenDecl:
					for _, sp := range v.Specs {
						if vs, ok := sp.(*ast.ValueSpec); ok {
							o := ast.NewObj(ast.Var, vs.Names[0].Name)
							o.Decl = vs
							sc.Insert(o)
						}
					}
				}
			}
			po.Data = sc
			imports[path] = po
			return po, nil
		}
		pkg, _ := ast.NewPackage(fset, map[string]*ast.File{"zz_extra.go": bf}, importer, nil)
		return fset, pkg
	}
	if !strings.HasSuffix(id, "0.go") && !strings.HasSuffix(id, "1.go") && !strings.HasSuffix(id, "e.go") && !strings.HasSuffix(id, "s.go") {
		return // the package is the same for every file: a sample of the files is enough
	}
	table := c17Table{"lib": "example.com/lib", "unicode": "unicode"}
	fsetP, pkgP := mk()
	if pkgP == nil || len(pkgP.Imports) == 0 {
		return
	}
	probe := &failingIdentResolver{inner: table}
	var ref dst.Node
	var refErr error
	if sig, _ := fw.Try(func() { ref, refErr = decorator.NewDecoratorWithImports(fsetP, "example.com/self", probe).DecorateNode(pkgP) }); sig != "" || refErr != nil || refl.IsNil(ref) {
		c.Count("inconclusive_clean_imports_phase_fails", 1)
		return
	}
	K := probe.calls
	for k := 1; k <= K; k++ {
		cid := fmt.Sprintf("%s/imports-phase-fail@%d", id, k)
		c.Case(cid, func() {
			c.Observe("fault_kinds", "ident-resolver-in-package-imports")
			fset, pkg := mk()
			if pkg == nil {
				return
			}
			fr := &failingIdentResolver{inner: table, failAt: k}
			var out dst.Node
			var err error
			if sig, detail := fw.Try(func() { out, err = decorator.NewDecoratorWithImports(fset, "example.com/self", fr).DecorateNode(pkg) }); sig != "" {
				c.Violate("panic-on-fault", sig, cid+"\n"+detail, string(src))
				return
			}
			if fr.calls < k {
				c.Count("fault_point_not_reached", 1)
				return
			}
			c17Verdict(c, cid, "decorate-package-imports", err, !refl.IsNil(out), 0, string(src))
			out2, err2 := decorator.NewDecoratorWithImports(fset, "example.com/self", table).DecorateNode(pkg)
			if err2 != nil || refl.IsNil(out2) {
				c.Violate("retry-fails", "retry-fails:decorate-package-imports", fmt.Sprintf("%s: %v", cid, err2), string(src))
				return
			}
			c.Nontrivial(cid)
		})
	}
}

// c17ParseDir writes the file and a companion file of the same package into a scratch directory and
// injects resolver failures into Decorator.ParseDir.
func c17ParseDir(c *fw.Ctx, id, name string, src []byte) {
	fset0 := token.NewFileSet()
	af, err := parser.ParseFile(fset0, name, src, parser.PackageClauseOnly)
	if err != nil {
		return
	}
	dir, err := os.MkdirTemp("", "c17dir")
	if err != nil {
		return
	}
	defer os.RemoveAll(dir)
	extra := "package " + af.Name.Name + "\n\nimport \"strings\"\n\nvar zzExtra = strings.ToUpper(\"x\")\n"
	if os.WriteFile(filepath.Join(dir, name), src, 0o644) != nil || os.WriteFile(filepath.Join(dir, "zz_extra.go"), []byte(extra), 0o644) != nil {
		return
	}
	printPkgs := func(pkgs map[string]*dst.Package) string {
		var names []string
		for pn, pk := range pkgs {
			for fn := range pk.Files {
				names = append(names, pn+"\x00"+fn)
			}
		}
		sort.Strings(names)
		out := ""
		for _, k := range names {
			parts := strings.SplitN(k, "\x00", 2)
			s, _ := printWithImports(pkgs[parts[0]].Files[parts[1]])
			out += "// " + filepath.Base(parts[1]) + "\n" + s
		}
		return out
	}
	for _, which := range []string{"ident", "package-name"} {
		mk := func(failAt int) (resolver.DecoratorResolver, func() int) {
			if which == "ident" {
				fr := &failingIdentResolver{inner: goast.New(), failAt: failAt}
				return fr, func() int { return fr.calls }
			}
			in := &failingPkgResolver{inner: guess.New(), failAt: failAt}
			return goast.WithResolver(in), func() int { return in.calls }
		}
		probe, calls := mk(0)
		var refPkgs map[string]*dst.Package
		var refErr error
		if sig, _ := fw.Try(func() {
			refPkgs, refErr = decorator.NewDecoratorWithImports(token.NewFileSet(), "example.com/self", probe).ParseDir(dir, nil, parser.ParseComments)
		}); sig != "" || refErr != nil || refPkgs == nil {
			c.Count("inconclusive_clean_parsedir_fails", 1)
			continue
		}
		K := calls()
		if K == 0 {
			continue
		}
		refOut := printPkgs(refPkgs)
		seen := map[int]bool{}
		for _, k := range []int{1, 2, (K + 1) / 2, K} {
			if k < 1 || k > K || seen[k] {
				continue
			}
			seen[k] = true
			cid := fmt.Sprintf("%s/parsedir-%s-fail@%d", id, which, k)
			c.Case(cid, func() {
				c.Observe("fault_kinds", "resolver-in-parse-dir")
				res, ncalls := mk(k)
				var out map[string]*dst.Package
				var err error
				if sig, detail := fw.Try(func() {
					out, err = decorator.NewDecoratorWithImports(token.NewFileSet(), "example.com/self", res).ParseDir(dir, nil, parser.ParseComments)
				}); sig != "" {
					c.Violate("panic-on-fault", sig, cid+"\n"+detail, string(src))
					return
				}
				if ncalls() < k {
					c.Count("fault_point_not_reached", 1)
					return
				}
				c17Verdict(c, cid, "parse-dir", err, out != nil, 0, string(src))
				clean, _ := mk(0)
				out2, err2 := decorator.NewDecoratorWithImports(token.NewFileSet(), "example.com/self", clean).ParseDir(dir, nil, parser.ParseComments)
				if err2 != nil || out2 == nil {
					c.Violate("retry-fails", "retry-fails:parse-dir", fmt.Sprintf("%s: %v", cid, err2), string(src))
					return
				}
				if got := printPkgs(out2); got != refOut {
					c.Violate("retry-differs", "retry-differs:parse-dir", cid+": retry output differs from the failure-free output", string(src))
				}
				c.Nontrivial(cid)
			})
		}
	}
}

func countFiles(fset *token.FileSet) int {
	n := 0
	fset.Iterate(func(*token.File) bool { n++; return true })
	return n
}

func printWithImports(f *dst.File) (string, error) {
	f = dst.Clone(f).(*dst.File)
	r := decorator.NewRestorerWithImports("example.com/self", guess.New())
	var buf bytes.Buffer
	err := r.Fprint(&buf, f)
	return buf.String(), err
}

func c17Verdict(c *fw.Ctx, cid, what string, err error, gotResult bool, written int, src string) {
	if err == nil {
		c.Violate("error-swallowed", "error-swallowed:"+what, cid+": the resolver failed but no error was returned", src)
		return
	}
	if !errors.Is(err, errInjected) {
		c.Violate("error-not-wrapped", "error-not-wrapped:"+what, cid+": returned error does not wrap the resolver's: "+err.Error(), src)
	}
	if written > 0 {
		c.Violate("output-on-failure", "output-on-failure:"+what, fmt.Sprintf("%s: %d bytes were written although the operation failed", cid, written), src)
	}
	if gotResult {
		c.Violate("result-on-failure", "result-on-failure:"+what, cid+": a tree was returned together with the resolver error", src)
	}
	c.Count("faults_injected", 1)
}

// c17Overrides derives FileRestorer.Alias overrides from the file's own imports (deterministic):
// explicit removal of an alias (""), a new alias, or none.
func c17Overrides(src []byte) map[string]string {
	out := map[string]string{}
	f, err := parser.ParseFile(token.NewFileSet(), "", src, parser.ImportsOnly)
	if err != nil {
		return out
	}
	for i, im := range f.Imports {
		p := strings.Trim(im.Path.Value, "\"`")
		if p == "C" {
			continue
		}
		switch (len(p) + i) % 4 {
		case 0:
			out[p] = "" // remove an alias the source may have
		case 1:
			out[p] = fmt.Sprintf("ov%d", i)
		}
	}
	return out
}

// c17Restorer builds a file restorer with the given resolver and overrides.
func c17Restorer(res resolver.RestorerResolver, ov map[string]string) *decorator.FileRestorer {
	fr := decorator.NewRestorerWithImports("example.com/self", res).FileRestorer()
	for k, v := range ov {
		fr.Alias[k] = v
	}
	return fr
}

func c17Restore(c *fw.Ctx, id string, src []byte) {
	c17RestoreWith(c, id, src, nil)
	if ov := c17Overrides(src); len(ov) > 0 {
		c17RestoreWith(c, id+"/alias-overrides", src, ov)
	}
}

func c17RestoreWith(c *fw.Ctx, id string, src []byte, ov map[string]string) {
	mk := func() (out *dst.File) {
		// a panic here (malformed import declarations) is C15's business, not this check's
		fw.Try(func() {
			d := decorator.NewDecoratorWithImports(token.NewFileSet(), "example.com/self", goast.New())
			df, err := d.Parse(src)
			if err != nil {
				return
			}
			c17Edit(df)
			out = df
		})
		return out
	}
	df := mk()
	if df == nil {
		return
	}
	clean := &failingPkgResolver{inner: guess.New()}
	var refBuf bytes.Buffer
	r := c17Restorer(clean, ov)
	var err error
	if sig, _ := fw.Try(func() { err = r.Fprint(&refBuf, df) }); sig != "" || err != nil {
		c.Count("inconclusive_clean_restore_fails", 1)
		return
	}
	K := clean.calls
	if K == 0 {
		return
	}
	c.Max("K_package", int64(K))
	c.Count("K_package_total", int64(K))
	ref := refBuf.String()
	for _, k := range faultPoints(c, id+"/res", K) {
		cid := fmt.Sprintf("%s/restore-fail@%d", id, k)
		c.Case(cid, func() {
			c.Observe("fault_kinds", "package-resolver")
			df := mk()
			snap := refl.DeepCopy(df)
			fr := &failingPkgResolver{inner: guess.New(), failAt: k}
			r := c17Restorer(fr, ov)
			// the caller's own file set, used again for the retry: a failed restore leaves nothing in it
			shared := token.NewFileSet()
			r.Fset = shared
			var buf bytes.Buffer
			var err error
			if sig, detail := fw.Try(func() { err = r.Fprint(&buf, df) }); sig != "" {
				c.Violate("panic-on-fault", sig, cid+"\n"+detail, string(src))
				return
			}
			c17Verdict(c, cid, "restore", err, false, buf.Len(), string(src))
			if n, b := countFiles(shared), shared.Base(); n != 0 || b != 1 {
				c.Violate("output-on-failure", "output-on-failure:restore:file-set", fmt.Sprintf("%s: the failed restore left %d file(s) in the caller's file set and moved its base to %d: a retry into that file set reports other positions than a failure-free run", cid, n, b), string(src))
			}
			if dd := refl.DeepEqualDst(df, snap); dd != "" {
				c.Violate("input-modified", "input-modified:restore", cid+": the dst tree changed: "+dd, string(src))
			}
			// second failure at another point, then clean retry on the same tree
			k2 := (k % K) + 1
			fr2 := &failingPkgResolver{inner: guess.New(), failAt: k2}
			var buf2 bytes.Buffer
			err2 := c17Restorer(fr2, ov).Fprint(&buf2, df)
			c17Verdict(c, cid+"/then@"+fmt.Sprint(k2), "restore", err2, false, buf2.Len(), string(src))
			if dd := refl.DeepEqualDst(df, snap); dd != "" {
				c.Violate("input-modified", "input-modified:restore-2", cid+": the dst tree changed after the second failure: "+dd, string(src))
			}
			var buf3 bytes.Buffer
			if err := c17Restorer(guess.New(), ov).Fprint(&buf3, df); err != nil {
				c.Violate("retry-fails", "retry-fails:restore", cid+": "+err.Error(), string(src))
				return
			}
			if buf3.String() != ref {
				c.Violate("retry-differs", "retry-differs:restore", cid+": retry output differs from the failure-free output", string(src))
			}
			if K >= 2 {
				c.Nontrivial(cid)
			}
			if k == 1 {
				c.Sample(map[string]interface{}{"case": cid, "K": K, "paths_resolved_in_clean_run": clean.paths})
			}
		})
	}
	// (d) simple resolver genuinely lacking a path
	cid := id + "/simple-missing-path"
	c.Case(cid, func() {
		c.Observe("fault_kinds", "simple-missing-path")
		df := mk()
		snap := refl.DeepCopy(df)
		m := map[string]string{}
		for i, p := range clean.paths {
			if i > 0 {
				n, _ := guess.New().ResolvePackage(p)
				m[p] = n
			}
		}
		var buf bytes.Buffer
		var err error
		if sig, detail := fw.Try(func() { err = c17Restorer(simple.New(m), ov).Fprint(&buf, df) }); sig != "" {
			c.Violate("panic-on-fault", sig, cid+"\n"+detail, string(src))
			return
		}
		if err == nil {
			c.Violate("error-swallowed", "error-swallowed:simple", cid+": missing package name but no error", string(src))
		} else if !errors.Is(err, resolver.ErrPackageNotFound) {
			c.Violate("error-not-wrapped", "error-not-wrapped:simple", cid+": "+err.Error(), string(src))
		}
		if buf.Len() > 0 {
			c.Violate("output-on-failure", "output-on-failure:simple", cid, string(src))
		}
		if dd := refl.DeepEqualDst(df, snap); dd != "" {
			c.Violate("input-modified", "input-modified:simple", cid+": "+dd, string(src))
		}
		c.Nontrivial(cid)
		c.Count("faults_injected", 1)
	})
	// (e) decorate fails -> retry -> restore fails -> retry
	cid = id + "/combined"
	c.Case(cid, func() {
		c.Observe("fault_kinds", "combined-sequence")
		fset := token.NewFileSet()
		af, err := parser.ParseFile(fset, "x.go", src, parser.ParseComments)
		if err != nil {
			return
		}
		fr := &failingIdentResolver{inner: goast.New(), failAt: 1}
		_, err = decorator.NewDecoratorWithImports(fset, "example.com/self", fr).DecorateFile(af)
		if err == nil && fr.calls > 0 {
			c.Violate("error-swallowed", "error-swallowed:combined", cid, string(src))
		}
		df, err := decorator.NewDecoratorWithImports(fset, "example.com/self", goast.New()).DecorateFile(af)
		if err != nil {
			return
		}
		c17Edit(df)
		var b1 bytes.Buffer
		err = c17Restorer(&failingPkgResolver{inner: guess.New(), failAt: K}, ov).Fprint(&b1, df)
		c17Verdict(c, cid, "restore", err, false, b1.Len(), string(src))
		var b2 bytes.Buffer
		if err := c17Restorer(guess.New(), ov).Fprint(&b2, df); err != nil || b2.String() != ref {
			c.Violate("retry-differs", "retry-differs:combined", fmt.Sprintf("%s: err=%v equal=%v", cid, err, b2.String() == ref), string(src))
		}
		c.Nontrivial(cid)
	})
}
