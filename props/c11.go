package props

import (
	"fmt"
	"go/ast"
	"go/parser"
	"go/token"
	"io"
	"os"
	"path/filepath"
	"reflect"
	"strings"

	"github.com/dave/dst"
	"github.com/dave/dst/decorator"
	"github.com/dave/dst/decorator/resolver/goast"
	"github.com/dave/dst/decorator/resolver/guess"

	"verif/internal/corpus"
	"verif/internal/fw"
	"verif/internal/gen"
	"verif/internal/refl"
)

func init() {
	fw.Register(&fw.Check{
		ID:    "C11",
		Level: "exploration",
		Rule: "cases: corpus files decorated (a) without and (b) with import resolution (goast), then restored (a) plainly, (b) with import management, (c) with Extras; plus " +
			"hand-edited trees (identifier paths added so that the restorer must synthesise selectors); plus pairs of files decorated as one *ast.Package by one Decorator and restored by one Restorer (accumulating maps, Package node). Monitors on Decorator.Map and on Restorer.Map alike: every non-comment " +
			"node of ast.Inspect is a key of Dst.Nodes with the same type name (or SelectorExpr/X/Sel -> one *dst.Ident); every node of dst.Inspect is a key of Ast.Nodes; " +
			"the two maps are mutually inverse modulo that collapse; each ast parent->child edge maps to a reflective dst parent->child edge (or to the same node); no nil or " +
			"typed-nil key; no in-tree key maps outside the other tree; no key of the map that lies in neither tree's companion. distinct_nontrivial = distinct (file, configuration) with >= 1 collapsed selector or >= 50 nodes.",
		Floor: 150,
		Run:   runC11,
		Assumptions: []string{
			"nodes created for object declarations that do not occur in the syntax (Extras) are allowed as extra map entries; entries for nodes inside either tree are held to the laws",
		},
		Required: map[string]int{"node_types": 52, "configs": 5},
	})
}

// c11Laws checks the map laws between an ast file and a dst file. side is "decorator" or
// "restorer". collapse reports whether selector collapse / expansion is legitimate.
func c11Laws(c *fw.Ctx, label, side string, af *ast.File, df *dst.File, d2a map[dst.Node]ast.Node, a2d map[ast.Node]dst.Node, src string) (collapsed int) {
	viol := func(rule, sig, detail string) {
		c.Violate(side+"/"+rule, side+"/"+sig, label+": "+detail, src)
	}
	// nil keys
	for k := range a2d {
		if refl.IsNil(k) {
			viol("nil-key", "nil-key:Dst.Nodes", fmt.Sprintf("Dst.Nodes has a nil key of type %T", k))
		}
	}
	for k, v := range d2a {
		if refl.IsNil(k) {
			viol("nil-key", "nil-key:Ast.Nodes", fmt.Sprintf("Ast.Nodes has a nil key of type %T", k))
		}
		if refl.IsNil(v) {
			viol("nil-value", "nil-value:Ast.Nodes", fmt.Sprintf("Ast.Nodes[%T] is nil", k))
		}
	}
	for k, v := range a2d {
		if refl.IsNil(v) && !refl.IsNil(k) {
			viol("nil-value", "nil-value:Dst.Nodes", fmt.Sprintf("Dst.Nodes[%T] is nil", k))
		}
	}
	inDst := map[dst.Node]bool{}
	dst.Inspect(df, func(n dst.Node) bool {
		if n != nil {
			inDst[n] = true
		}
		return true
	})
	inAst := map[ast.Node]bool{}
	aparent := map[ast.Node]ast.Node{}
	var stack []ast.Node
	var aseq []ast.Node
	ast.Inspect(af, func(n ast.Node) bool {
		if n == nil {
			stack = stack[:len(stack)-1]
			return false
		}
		switch n.(type) {
		case *ast.CommentGroup, *ast.Comment:
			return false
		}
		inAst[n] = true
		aseq = append(aseq, n)
		if len(stack) > 0 {
			aparent[n] = stack[len(stack)-1]
		}
		stack = append(stack, n)
		return true
	})
	// every ast node has a dst counterpart of the corresponding type
	for _, a := range aseq {
		d, ok := a2d[a]
		if !ok || refl.IsNil(d) {
			viol("ast-node-unmapped", "ast-node-unmapped:"+refl.TypeName(a)+"<"+refl.TypeName(aparent[a]), fmt.Sprintf("ast %s (child of %s) has no entry in Dst.Nodes", refl.TypeName(a), refl.TypeName(aparent[a])))
			continue
		}
		c.Observe("node_types", refl.TypeName(a))
		if refl.TypeName(a) != refl.TypeName(d) {
			// legitimate only for the qualified-identifier collapse
			id, isIdent := d.(*dst.Ident)
			sel, isSel := a.(*ast.SelectorExpr)
			_, aIsIdent := a.(*ast.Ident)
			if isIdent && id.Path != "" && (isSel || aIsIdent) {
				if isSel {
					collapsed++
					if a2d[sel.X] != d || a2d[sel.Sel] != d {
						viol("collapse-incomplete", "collapse-incomplete", "X / Sel of a collapsed selector do not map to the identifier it collapsed into")
					}
					if d2a[d] != a {
						viol("collapse-inverse", "collapse-inverse", fmt.Sprintf("Ast.Nodes[ident] is %s, want the SelectorExpr", refl.TypeName(d2a[d])))
					}
				}
			} else {
				viol("type-mismatch", "type-mismatch:"+refl.TypeName(a), fmt.Sprintf("ast %s maps to dst %s", refl.TypeName(a), refl.TypeName(d)))
			}
			continue
		}
		if !inDst[d] {
			viol("maps-outside-tree", "maps-outside-tree:"+refl.TypeName(a), fmt.Sprintf("ast %s (in tree) maps to a dst node that is not in the dst tree", refl.TypeName(a)))
			continue
		}
		// inverse (a plain identifier that is the X or Sel of a collapsed selector was handled above)
		if id, ok := d.(*dst.Ident); ok && id.Path != "" {
			if _, ok := a.(*ast.Ident); ok {
				if p, ok := aparent[a].(*ast.SelectorExpr); ok && a2d[p] == d {
					continue
				}
			}
		}
		if d2a[d] != a {
			viol("not-inverse", "not-inverse:"+refl.TypeName(a), fmt.Sprintf("Ast.Nodes[Dst.Nodes[a]] != a for %s", refl.TypeName(a)))
		}
	}
	// every dst node maps back
	for d := range inDst {
		a, ok := d2a[d]
		if !ok || refl.IsNil(a) {
			viol("dst-node-unmapped", "dst-node-unmapped:"+refl.TypeName(d), fmt.Sprintf("dst %s has no entry in Ast.Nodes", refl.TypeName(d)))
			continue
		}
		if !inAst[a] {
			viol("maps-outside-tree", "maps-outside-tree:dst:"+refl.TypeName(d), fmt.Sprintf("dst %s maps to an ast node outside the ast tree", refl.TypeName(d)))
			continue
		}
		if a2d[a] != d {
			viol("not-inverse", "not-inverse:dst:"+refl.TypeName(d), fmt.Sprintf("Dst.Nodes[Ast.Nodes[d]] != d for %s", refl.TypeName(d)))
		}
	}
	// parent/child commutes
	childSets := map[dst.Node]map[dst.Node]bool{}
	for _, a := range aseq {
		p := aparent[a]
		if p == nil {
			continue
		}
		dc, dp := a2d[a], a2d[p]
		if refl.IsNil(dc) || refl.IsNil(dp) {
			continue
		}
		if dc == dp {
			continue
		}
		// (the children of a parent are collected once: lists with tens of thousands of elements
		// would otherwise cost a quadratic number of comparisons)
		cs, ok := childSets[dp]
		if !ok {
			cs = map[dst.Node]bool{}
			for _, ch := range refl.DstChildren(dp) {
				cs[ch.Node] = true
			}
			childSets[dp] = cs
		}
		found := cs[dc]
		if !found {
			// FuncDecl: ast has Type as a child whose children are the field lists; dst has the same shape
			viol("edge-not-preserved", "edge-not-preserved:"+refl.TypeName(p)+">"+refl.TypeName(a), fmt.Sprintf("ast edge %s -> %s has no dst counterpart edge", refl.TypeName(p), refl.TypeName(a)))
		}
	}
	// order: the pre-order of the ast tree, mapped, is the pre-order of the dst tree (the three ast
	// nodes of a collapsed qualified identifier count once)
	var mapped []dst.Node
	for _, a := range aseq {
		d := a2d[a]
		if refl.IsNil(d) {
			continue
		}
		if id, ok := d.(*dst.Ident); ok && id.Path != "" && len(mapped) > 0 && mapped[len(mapped)-1] == d {
			continue
		}
		if id, ok := d.(*dst.Ident); ok && id.Path != "" && len(mapped) > 1 && mapped[len(mapped)-2] == d {
			continue
		}
		mapped = append(mapped, d)
	}
	var dseq []dst.Node
	dst.Inspect(df, func(n dst.Node) bool {
		if n != nil {
			dseq = append(dseq, n)
		}
		return true
	})
	if len(mapped) == len(dseq) {
		for i := range mapped {
			if mapped[i] != dseq[i] {
				viol("order-not-preserved", "order-not-preserved:"+refl.TypeName(dseq[i]), fmt.Sprintf("position %d of the pre-order: the ast tree has the counterpart of a %s where the dst tree has a %s (children of one parent are in another order)", i, refl.TypeName(mapped[i]), refl.TypeName(dseq[i])))
				break
			}
		}
		c.Count(side+":preorders_compared", 1)
	}
	// whole-map laws (every entry, not only the nodes of the two trees): the maps are mutually
	// inverse except where three ast nodes collapse onto one path-carrying identifier
	for a, d := range a2d {
		if refl.IsNil(a) || refl.IsNil(d) {
			continue
		}
		if back, ok := d2a[d]; !ok {
			viol("map-not-inverse", "map-not-inverse:Dst->Ast-missing:"+refl.TypeName(a), fmt.Sprintf("Dst.Nodes maps an ast %s to a dst %s that is not a key of Ast.Nodes", refl.TypeName(a), refl.TypeName(d)))
		} else if back != a {
			if id, isIdent := d.(*dst.Ident); isIdent && id.Path != "" {
				if sel, ok := back.(*ast.SelectorExpr); ok && (sel.X == a || sel.Sel == a) {
					continue
				}
			}
			viol("map-not-inverse", "map-not-inverse:Dst->Ast:"+refl.TypeName(a), fmt.Sprintf("Ast.Nodes[Dst.Nodes[a]] != a for an ast %s (entry outside or inside the tree)", refl.TypeName(a)))
		}
	}
	for d, a := range d2a {
		if refl.IsNil(a) || refl.IsNil(d) {
			continue
		}
		if back, ok := a2d[a]; !ok {
			viol("map-not-inverse", "map-not-inverse:Ast->Dst-missing:"+refl.TypeName(d), fmt.Sprintf("Ast.Nodes maps a dst %s to an ast %s that is not a key of Dst.Nodes", refl.TypeName(d), refl.TypeName(a)))
		} else if back != d {
			viol("map-not-inverse", "map-not-inverse:Ast->Dst:"+refl.TypeName(d), fmt.Sprintf("Dst.Nodes[Ast.Nodes[d]] != d for a dst %s: a stale entry (two dst nodes claim one ast node)", refl.TypeName(d)))
		}
	}
	c.Count(side+":map_entries_checked", int64(len(a2d)+len(d2a)))
	// keys that are in neither tree: allowed only for detached declarations (counted)
	extra := 0
	for k := range a2d {
		if !refl.IsNil(k) && !inAst[k] {
			extra++
		}
	}
	for k := range d2a {
		if !refl.IsNil(k) && !inDst[k] {
			extra++
			// a dst key outside the input tree must not claim an in-tree ast node of another dst node
			if a := d2a[k]; inAst[a] && inDst[a2d[a]] && a2d[a] != k {
				// tolerated: recorded
				c.Count("foreign_dst_keys_on_tree_nodes", 1)
			}
		}
	}
	c.Count(side+":detached_entries", int64(extra))
	c.Count(side+":ast_nodes", int64(len(aseq)))
	return collapsed
}

func runC11(c *fw.Ctx) {
	files := corpus.Sample(c.Rand("files"), c.Pick(260, 0))
	snips := extraSnippets()
	var snames []string
	for k := range snips {
		snames = append(snames, "snippet:"+k)
	}
	// the layout zoo takes part as well (rare constructs: implicit empty statements after a label
	// that ends a block, empty bodies, multi-line instantiations, ...)
	zoo := layoutZoo()
	for k := range zoo {
		snames = append(snames, "snippet:zoo/"+k)
		snips["zoo/"+k] = zoo[k]
	}
	sortStrings(snames)
	files = append(snames, files...)
	for i, p := range files {
		if !c.Mine(i) {
			continue
		}
		var src []byte
		if strings.HasPrefix(p, "snippet:") {
			src = []byte(snips[strings.TrimPrefix(p, "snippet:")])
		} else {
			src = readFile(p)
		}
		if src == nil {
			continue
		}
		for _, cfg := range []string{"plain", "plain+extras", "goast+imports", "goast+edited"} {
			id := "file:" + corpus.Rel(p) + "/" + cfg
			fset := token.NewFileSet()
			af, err := parser.ParseFile(fset, filepath.Base(p), src, parser.ParseComments)
			if err != nil && (af == nil || !strings.HasPrefix(p, "snippet:bad:")) {
				continue
			}
			c.Case(id, func() {
				c.Observe("configs", cfg)
				var d *decorator.Decorator
				withImports := cfg == "goast+imports" || cfg == "goast+edited"
				if withImports {
					d = decorator.NewDecoratorWithImports(fset, "example.com/self", goast.New())
				} else {
					d = decorator.NewDecorator(fset)
				}
				df, err := d.DecorateFile(af)
				if err != nil {
					c.Count("inconclusive_resolver_refused", 1) // dot-import etc.
					return
				}
				n := c11Laws(c, id, "decorator", af, df, d.Ast.Nodes, d.Dst.Nodes, string(src))
				c.Count("collapsed_selectors", int64(n))

				if cfg == "goast+edited" {
					// give some local identifiers in expression position a remote path so the restorer must expand them
					k := 0
					dst.Inspect(df, func(x dst.Node) bool {
						if ce, ok := x.(*dst.CallExpr); ok {
							if idn, ok := ce.Fun.(*dst.Ident); ok && idn.Path == "" {
								k++
								if k%3 == 0 {
									idn.Path = "example.com/added/pkg"
								}
							}
						}
						return true
					})
				}
				var r *decorator.Restorer
				if withImports {
					r = decorator.NewRestorerWithImports("example.com/self", guess.New())
				} else {
					r = decorator.NewRestorer()
				}
				r.Extras = cfg == "plain+extras"
				var rf *ast.File
				if sig, detail := fw.Try(func() { rf, err = r.RestoreFile(df) }); sig != "" {
					c.Violate("restore-panic", sig, id+"\n"+detail, string(src))
					return
				}
				if err != nil {
					c.Count("inconclusive_restore_error", 1)
					return
				}
				m := c11Laws(c, id, "restorer", rf, df, r.Ast.Nodes, r.Dst.Nodes, string(src))
				c.Count("expanded_identifiers", int64(m))
				// a second pass: the restored ast is decorated again (fresh decorator on the restorer's
				// file set) and restored again; the laws hold for both new pairs of maps
				// (in the thorough tier, which takes every corpus file, the second pass and the printing
				// entry points run for every fourth corpus file and for every snippet)
				extra := (c.Quick() || i%4 == 0 || strings.HasPrefix(p, "snippet:")) && len(src) < 150000 // (the laws cost a quadratic term in the longest child list: the huge table files get the base configurations only)
				if extra && (cfg == "plain" || cfg == "goast+imports") {
					var d2 *decorator.Decorator
					if withImports {
						d2 = decorator.NewDecoratorWithImports(r.Fset, "example.com/self", goast.New())
					} else {
						d2 = decorator.NewDecorator(r.Fset)
					}
					var df2 *dst.File
					var err2 error
					if sig, detail := fw.Try(func() { df2, err2 = d2.DecorateFile(rf) }); sig != "" {
						c.Violate("decorate-panic", sig, id+" [second pass]\n"+detail, string(src))
					} else if err2 == nil && df2 != nil {
						c11Laws(c, id+" [second pass]", "decorator", rf, df2, d2.Ast.Nodes, d2.Dst.Nodes, string(src))
						var r3 *decorator.Restorer
						if withImports {
							r3 = decorator.NewRestorerWithImports("example.com/self", guess.New())
						} else {
							r3 = decorator.NewRestorer()
						}
						var rf3 *ast.File
						if sig, detail := fw.Try(func() { rf3, err2 = r3.RestoreFile(df2) }); sig != "" {
							c.Violate("restore-panic", sig, id+" [second pass]\n"+detail, string(src))
						} else if err2 == nil && rf3 != nil {
							c11Laws(c, id+" [second pass]", "restorer", rf3, df2, r3.Ast.Nodes, r3.Dst.Nodes, string(src))
							c.Count("second_passes", 1)
						}
					}
				}
				// the same through the printing entry points (Fprint restores, then prints): the maps
				// they leave behind describe the ast they created
				for _, via := range []string{"Restorer.Fprint", "FileRestorer.Fprint"} {
					if !extra {
						break
					}
					var r2 *decorator.Restorer
					if withImports {
						r2 = decorator.NewRestorerWithImports("example.com/self", guess.New())
					} else {
						r2 = decorator.NewRestorer()
					}
					df2 := dst.Clone(df).(*dst.File)
					var perr error
					if sig, detail := fw.Try(func() {
						if via == "Restorer.Fprint" {
							perr = r2.Fprint(io.Discard, df2)
						} else {
							perr = r2.FileRestorer().Fprint(io.Discard, df2)
						}
					}); sig != "" {
						c.Violate("restore-panic", sig, id+" ["+via+"]\n"+detail, string(src))
						break
					}
					if perr != nil {
						break
					}
					rf2, ok := r2.Ast.Nodes[df2].(*ast.File)
					if !ok || rf2 == nil {
						c.Violate("restorer/file-unmapped", "restorer/file-unmapped:"+via, id+": after "+via+" the dst file has no *ast.File counterpart in the Restorer's map", string(src))
						break
					}
					c11Laws(c, id+" ["+via+"]", "restorer", rf2, df2, r2.Ast.Nodes, r2.Dst.Nodes, string(src))
					c.Count("laws_after_fprint", 1)
				}
				if n+m > 0 || len(r.Ast.Nodes) >= 50 {
					c.Nontrivial(id)
				}
				if i < 2 {
					c.Sample(map[string]interface{}{"case": id, "ast_nodes": len(r.Dst.Nodes), "collapsed": n, "expanded": m})
				}
			})
		}
	}
	// several files through one Decorator (as an *ast.Package) and one Restorer: the maps
	// accumulate, and the laws must hold for every file of the package
	for i := 0; i+1 < len(files); i += 2 {
		if !c.Mine(i / 2) {
			continue
		}
		pa, pb := files[i], files[i+1]
		if strings.HasPrefix(pa, "snippet:") || strings.HasPrefix(pb, "snippet:") {
			continue
		}
		id := "pair:" + corpus.Rel(pa) + "+" + corpus.Rel(pb)
		c.Case(id, func() {
			c.Observe("configs", "package")
			fset := token.NewFileSet()
			apkg := &ast.Package{Name: "p", Files: map[string]*ast.File{}}
			srcs := map[string]string{}
			for k, p := range []string{pa, pb} {
				src := readFile(p)
				if src == nil {
					return
				}
				name := fmt.Sprintf("f%d.go", k)
				af, err := parser.ParseFile(fset, name, src, parser.ParseComments)
				if err != nil {
					return
				}
				apkg.Files[name] = af
				srcs[name] = string(src)
			}
			d := decorator.NewDecorator(fset)
			var dn dst.Node
			var err error
			if sig, detail := fw.Try(func() { dn, err = d.DecorateNode(apkg) }); sig != "" {
				c.Violate("decorate-panic", sig, id+"\n"+detail, "")
				return
			}
			if err != nil {
				return
			}
			dp, ok := dn.(*dst.Package)
			if !ok {
				c.Violate("decorator/package-type", "decorator/package-type", fmt.Sprintf("%s: DecorateNode(*ast.Package) returned %T", id, dn), "")
				return
			}
			if d.Dst.Nodes[apkg] != dst.Node(dp) || d.Ast.Nodes[dp] != ast.Node(apkg) {
				c.Violate("decorator/package-node", "decorator/package-node", id+": the Package node is not mapped to its counterpart in both directions", "")
			}
			if len(dp.Files) != len(apkg.Files) {
				c.Violate("decorator/package-files", "decorator/package-files", fmt.Sprintf("%s: %d files decorated, %d in the ast package", id, len(dp.Files), len(apkg.Files)), "")
			}
			r := decorator.NewRestorer()
			restored := map[string]*ast.File{}
			for _, name := range []string{"f0.go", "f1.go"} {
				af, df := apkg.Files[name], dp.Files[name]
				if df == nil {
					c.Violate("decorator/package-files", "decorator/package-files", id+": file "+name+" missing in the decorated package", "")
					continue
				}
				c11Laws(c, id+"/"+name, "decorator", af, df, d.Ast.Nodes, d.Dst.Nodes, srcs[name])
				var rf *ast.File
				if sig, detail := fw.Try(func() { rf, err = r.RestoreFile(df) }); sig != "" {
					c.Violate("restore-panic", sig, id+"\n"+detail, srcs[name])
					return
				}
				if err != nil {
					return
				}
				restored[name] = rf
				c11Laws(c, id+"/"+name, "restorer", rf, df, r.Ast.Nodes, r.Dst.Nodes, srcs[name])
			}
			// the first file's entries must have survived the second restoration
			if rf0 := restored["f0.go"]; rf0 != nil {
				c11Laws(c, id+"/f0.go(after f1.go)", "restorer", rf0, dp.Files["f0.go"], r.Ast.Nodes, r.Dst.Nodes, srcs["f0.go"])
			}
			c.Count("packages_two_files", 1)
			c.Nontrivial(id)
			// the directory entry point: Decorator.ParseDir must leave the same correspondences in
			// the Decorator it was called on
			dir := filepath.Join(c.WorkDir, fmt.Sprintf("c11dir%d", i))
			if os.MkdirAll(dir, 0755) != nil {
				return
			}
			defer os.RemoveAll(dir)
			for name, src := range srcs {
				// one package name for the whole directory, so that ParseDir returns one package
				b := []byte(src)
				if af := apkg.Files[name]; af != nil {
					off := fset.Position(af.Name.Pos()).Offset
					b = append(append(append([]byte{}, b[:off]...), "pdir"...), b[off+len(af.Name.Name):]...)
				}
				os.WriteFile(filepath.Join(dir, name), b, 0644)
			}
			d3 := decorator.NewDecorator(token.NewFileSet())
			var pkgs map[string]*dst.Package
			if sig, detail := fw.Try(func() { pkgs, err = d3.ParseDir(dir, nil, parser.ParseComments) }); sig != "" {
				c.Violate("decorate-panic", sig, id+" [ParseDir]\n"+detail, "")
				return
			}
			if err != nil {
				return
			}
			for pname, dp3 := range pkgs {
				ap3, ok := d3.Ast.Nodes[dp3].(*ast.Package)
				if !ok || ap3 == nil {
					c.Violate("decorator/package-node", "decorator/package-node:ParseDir", fmt.Sprintf("%s: the *dst.Package %q returned by Decorator.ParseDir has no ast counterpart in the Decorator's map", id, pname), "")
					continue
				}
				if d3.Dst.Nodes[ap3] != dst.Node(dp3) {
					c.Violate("decorator/package-node", "decorator/package-node:ParseDir", id+": Dst.Nodes does not map the ast package back to the returned dst package", "")
				}
				for fname, df3 := range dp3.Files {
					af3 := ap3.Files[fname]
					if af3 == nil {
						c.Violate("decorator/package-files", "decorator/package-files:ParseDir", id+": file "+fname+" of the returned package is not in the mapped ast package", "")
						continue
					}
					c11Laws(c, id+"/ParseDir/"+filepath.Base(fname), "decorator", af3, df3, d3.Ast.Nodes, d3.Dst.Nodes, "")
				}
				c.Count("parsedir_packages", 1)
			}
		})
	}
	_ = reflect.TypeOf

	// hand-built trees: every node type with all children present, with each optional child (and
	// each list, and a function type's parameter list) absent in turn, and with present-but-empty
	// field lists / blocks, wrapped into a file and restored
	idx := 0
	for _, t := range gen.NodeTypes() {
		st := t.Elem()
		if st.Name() == "Package" || st.Name() == "File" {
			continue
		}
		variants := []string{"", "omit:FuncType.Params", "omit:FuncType.Results"}
		for k := 0; k < st.NumField(); k++ {
			sf := st.Field(k)
			if sf.Name == "Decs" || sf.Name == "Obj" || sf.Name == "Scope" {
				continue
			}
			if optionalChild[st.Name()+"."+sf.Name] || sf.Type.Kind() == reflect.Slice {
				variants = append(variants, "omit:"+st.Name()+"."+sf.Name)
			}
			if sf.Type == reflect.TypeOf((*dst.FieldList)(nil)) || sf.Type == reflect.TypeOf((*dst.BlockStmt)(nil)) {
				variants = append(variants, "empty:"+st.Name()+"."+sf.Name)
			}
		}
		for _, v := range variants {
			i := idx
			idx++
			if !c.Mine(i) {
				continue
			}
			id := "built:" + st.Name() + "/" + v
			c.Case(id, func() {
				c.Observe("configs", "hand-built")
				fl := &gen.Filler{}
				if strings.HasPrefix(v, "omit:") {
					fl.Omit = strings.TrimPrefix(v, "omit:")
				} else if strings.HasPrefix(v, "empty:") {
					fl.Empty = strings.TrimPrefix(v, "empty:")
				}
				df := c11Wrap(fl.Fill(t, 3))
				if df == nil {
					return
				}
				// the filled identifiers carry package paths (legal only at some places): cleared
				dst.Inspect(df, func(n dst.Node) bool {
					if id, ok := n.(*dst.Ident); ok {
						id.Path = ""
					}
					return true
				})
				r := decorator.NewRestorer()
				var rf *ast.File
				var err error
				if sig, _ := fw.Try(func() { rf, err = r.RestoreFile(df) }); sig != "" || err != nil {
					c.Count("inconclusive_hand_built_tree_not_restorable:"+sig, 1)
					return
				}
				c11Laws(c, id, "restorer", rf, df, r.Ast.Nodes, r.Dst.Nodes, "")
				c.Count("hand_built_trees", 1)
				c.Nontrivial(id)
			})
		}
	}
}

// c11Wrap puts a node into a file at a place where its type is allowed.
func c11Wrap(n dst.Node) *dst.File {
	f := &dst.File{Name: dst.NewIdent("p")}
	inFunc := func(s dst.Stmt) {
		f.Decls = append(f.Decls, &dst.FuncDecl{Name: dst.NewIdent("f"), Type: &dst.FuncType{Func: true, Params: &dst.FieldList{Opening: true, Closing: true}}, Body: &dst.BlockStmt{List: []dst.Stmt{s}}})
	}
	asValue := func(e dst.Expr) {
		f.Decls = append(f.Decls, &dst.GenDecl{Tok: token.VAR, Specs: []dst.Spec{&dst.ValueSpec{Names: []*dst.Ident{dst.NewIdent("_")}, Values: []dst.Expr{e}}}})
	}
	switch v := n.(type) {
	case *dst.Field:
		asValue(&dst.CompositeLit{Type: &dst.StructType{Fields: &dst.FieldList{Opening: true, Closing: true, List: []*dst.Field{v}}}})
	case *dst.FieldList:
		asValue(&dst.FuncLit{Type: &dst.FuncType{Func: true, Params: v}, Body: &dst.BlockStmt{}})
	case *dst.CaseClause:
		inFunc(&dst.SwitchStmt{Body: &dst.BlockStmt{List: []dst.Stmt{v}}})
	case *dst.CommClause:
		inFunc(&dst.SelectStmt{Body: &dst.BlockStmt{List: []dst.Stmt{v}}})
	case *dst.ImportSpec:
		f.Decls = append(f.Decls, &dst.GenDecl{Tok: token.IMPORT, Specs: []dst.Spec{v}})
	case *dst.TypeSpec:
		f.Decls = append(f.Decls, &dst.GenDecl{Tok: token.TYPE, Specs: []dst.Spec{v}})
	case *dst.ValueSpec:
		f.Decls = append(f.Decls, &dst.GenDecl{Tok: token.VAR, Specs: []dst.Spec{v}})
	case dst.Decl:
		f.Decls = append(f.Decls, v)
	case dst.Stmt:
		inFunc(v)
	case dst.Expr:
		asValue(v)
	default:
		return nil
	}
	return f
}
