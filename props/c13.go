package props

import (
	"fmt"
	"go/ast"
	"go/parser"
	"go/token"
	"hash/fnv"
	"path/filepath"
	"reflect"
	"sort"
	"strings"
	"verif/internal/obs"

	"github.com/dave/dst"
	"github.com/dave/dst/decorator"
	"github.com/dave/dst/decorator/resolver/goast"
	"github.com/dave/dst/decorator/resolver/simple"

	"verif/internal/corpus"
	"verif/internal/fw"
	"verif/internal/gen"
	"verif/internal/refl"
)

func init() {
	fw.Register(&fw.Check{
		ID:    "C13",
		Level: "exploration",
		Rule: "cases: corpus files (decorated; the go/ast tree kept) and reflection-built trees of every dst node type with every child present and with each optional child " +
			"absent in turn, plus *dst.Package roots. Monitors per tree: (1) dst.Inspect sequence == ast.Inspect sequence (comments removed) mapped through Decorator.Dst.Nodes; " +
			"(2) == reflection-derived pre-order of syntactic child fields; (3) dst.Walk visit log is a well-nested bracket word whose nesting equals the tree, exactly one " +
			"Visit(nil) after each entered node; (4) for seeded pruning predicates the visited set is exactly the nodes with no declined proper ancestor and declined nodes get " +
			"no Visit(nil); (5) source positions of the mapped ast nodes are non-decreasing among siblings. distinct_nontrivial = distinct (tree hash, predicate) pairs with >= 10 nodes.",
		Floor: 150,
		Run:   runC13,
		Assumptions: []string{
			"go/ast.Inspect of the toolchain is the reference traversal for trees with an ast origin",
			"child fields are derived by reflection from the dst struct definitions (Decs, Obj, Scope, File.Imports/Unresolved, Package.Imports are not syntactic children)",
		},
		Required: map[string]int{"node_types": 53},
	})
}

type walkLog struct {
	events []dst.Node // node for enter, nil for exit
}

// depthVisitor hands every subtree to a new visitor that knows its depth, and declines at a limit.
type depthVisitor struct {
	depth int
	log   *[]string
	limit int
}

func (v depthVisitor) Visit(n dst.Node) dst.Visitor {
	if n == nil {
		*v.log = append(*v.log, fmt.Sprintf("%d:nil", v.depth))
		return nil
	}
	*v.log = append(*v.log, fmt.Sprintf("%d:%p", v.depth, n))
	if v.depth >= v.limit {
		return nil
	}
	return depthVisitor{v.depth + 1, v.log, v.limit}
}

type logVisitor struct {
	log   *walkLog
	prune func(dst.Node) bool
}

func (v logVisitor) Visit(n dst.Node) dst.Visitor {
	v.log.events = append(v.log.events, n)
	if n == nil {
		return nil
	}
	if v.prune != nil && v.prune(n) {
		return nil
	}
	return v
}

// c13CheckTree runs monitors 2-4 on any dst tree. Returns the Inspect sequence.
func c13CheckTree(c *fw.Ctx, label string, root dst.Node, npred int) []dst.Node {
	isPkg := false
	if _, ok := root.(*dst.Package); ok {
		isPkg = true
	}
	// Inspect sequence
	var seq []dst.Node
	nilCalls := 0
	dst.Inspect(root, func(n dst.Node) bool {
		if n == nil {
			nilCalls++
			return false
		}
		seq = append(seq, n)
		return true
	})
	// a visitor that declines the root: exactly one call (with the root), nothing below it
	declined := 0
	var firstDeclined dst.Node
	dst.Inspect(root, func(n dst.Node) bool {
		if n != nil {
			if declined == 0 {
				firstDeclined = n
			}
			declined++
		}
		return false
	})
	if declined != 1 || firstDeclined != root {
		c.Violate("pruning", "pruning:declined-root:"+refl.TypeName(root), fmt.Sprintf("%s: a visitor that returns false for the root was called with %d non-nil nodes (want 1, the root)", label, declined), "")
	}
	want := refl.DstPreorder(root)
	canon := func(s []dst.Node) []dst.Node {
		if !isPkg {
			return s
		}
		// files of a package are visited in map order: compare as a set of per-file sequences by
		// sorting file blocks by the file's name identifier
		type block struct {
			key string
			ns  []dst.Node
		}
		var blocks []block
		var head []dst.Node
		for _, n := range s {
			if f, ok := n.(*dst.File); ok {
				blocks = append(blocks, block{key: fmt.Sprintf("%p", f)})
			}
			if len(blocks) == 0 {
				head = append(head, n)
			} else {
				blocks[len(blocks)-1].ns = append(blocks[len(blocks)-1].ns, n)
			}
		}
		sort.Slice(blocks, func(i, j int) bool { return blocks[i].key < blocks[j].key })
		out := head
		for _, b := range blocks {
			out = append(out, b.ns...)
		}
		return out
	}
	a, b := canon(seq), canon(want)
	if len(a) != len(b) {
		c.Violate("inspect-vs-reflection", "inspect-vs-reflection:length", fmt.Sprintf("%s: Inspect visited %d nodes, reflection finds %d reachable", label, len(a), len(b)), "")
	} else {
		for i := range a {
			if a[i] != b[i] {
				c.Violate("inspect-vs-reflection", "inspect-vs-reflection:order:"+refl.TypeName(b[i]), fmt.Sprintf("%s: at index %d Inspect gives %s, reflection pre-order gives %s", label, i, refl.TypeName(a[i]), refl.TypeName(b[i])), "")
				break
			}
		}
	}
	if nilCalls != len(seq) {
		c.Violate("nil-calls", "nil-calls:inspect", fmt.Sprintf("%s: %d nodes entered but %d f(nil) calls", label, len(seq), nilCalls), "")
	}
	seen := map[dst.Node]int{}
	for _, n := range seq {
		seen[n]++
		if seen[n] == 2 {
			c.Violate("visited-twice", "visited-twice:"+refl.TypeName(n), label+": node visited twice: "+refl.TypeName(n), "")
		}
		c.Observe("node_types", refl.TypeName(n))
	}
	c.Count("nodes_visited", int64(len(seq)))

	// visitor threading: Walk continues with the visitor that Visit returned (here one per depth,
	// declining below a depth limit) and makes the closing Visit(nil) call on that visitor too
	if !isPkg {
		for _, limit := range []int{2, 5, 1 << 30} {
			var got, want []string
			dst.Walk(depthVisitor{0, &got, limit}, root)
			var exp func(n dst.Node, depth int)
			exp = func(n dst.Node, depth int) {
				want = append(want, fmt.Sprintf("%d:%p", depth, n))
				if depth >= limit {
					return
				}
				for _, ch := range refl.DstChildren(n) {
					exp(ch.Node, depth+1)
				}
				want = append(want, fmt.Sprintf("%d:nil", depth+1))
			}
			exp(root, 0)
			if i := obs.FirstDiff(got, want); i >= 0 {
				c.Violate("visitor-threading", "visitor-threading", fmt.Sprintf("%s (depth limit %d): event %d is %q, expected %q (depth:node as seen by per-depth visitors; %d vs %d events)", label, limit, i, at(got, i), at(want, i), len(got), len(want)), "")
				break
			}
			c.Count("visitor_threading_events", int64(len(got)))
		}
	}

	// bracket discipline with Walk
	lg := &walkLog{}
	dst.Walk(logVisitor{log: lg}, root)
	var stack []dst.Node
	childIdx := map[dst.Node]int{}
	bad := ""
	for i, e := range lg.events {
		if e != nil {
			if len(stack) > 0 {
				p := stack[len(stack)-1]
				ch := refl.DstChildren(p)
				k := childIdx[p]
				if _, ok := p.(*dst.Package); ok {
					found := false
					for _, cc := range ch {
						if cc.Node == e {
							found = true
						}
					}
					if !found {
						bad = fmt.Sprintf("event %d: %s entered under Package but is not one of its files", i, refl.TypeName(e))
					}
				} else if k >= len(ch) || ch[k].Node != e {
					bad = fmt.Sprintf("event %d: %s entered under %s but child #%d by reflection is different", i, refl.TypeName(e), refl.TypeName(p), k)
				}
				childIdx[p] = k + 1
			}
			stack = append(stack, e)
		} else {
			if len(stack) == 0 {
				bad = fmt.Sprintf("event %d: Visit(nil) with empty stack", i)
				break
			}
			p := stack[len(stack)-1]
			if childIdx[p] != len(refl.DstChildren(p)) {
				bad = fmt.Sprintf("event %d: Visit(nil) for %s after %d of %d children", i, refl.TypeName(p), childIdx[p], len(refl.DstChildren(p)))
			}
			stack = stack[:len(stack)-1]
		}
		if bad != "" {
			break
		}
	}
	if bad == "" && len(stack) != 0 {
		bad = "unclosed nodes at end of walk"
	}
	if bad != "" {
		c.Violate("bracket-discipline", "bracket-discipline", label+": "+bad, "")
	}
	c.Count("walk_events", int64(len(lg.events)))

	// pruning predicates
	index := map[dst.Node]int{}
	for i, n := range want {
		index[n] = i
	}
	parent := map[dst.Node]dst.Node{}
	for _, n := range want {
		for _, ch := range refl.DstChildren(n) {
			parent[ch.Node] = n
		}
	}
	for p := 0; p < npred; p++ {
		salt := fmt.Sprintf("%d/%s/%d", c.Seed, label, p)
		rate := uint32(2 + p%9)
		declined := func(n dst.Node) bool {
			h := fnv.New32a()
			fmt.Fprintf(h, "%s/%d/%s", salt, index[n], refl.TypeName(n))
			return h.Sum32()%rate == 0
		}
		visited := map[dst.Node]bool{}
		nils := 0
		dst.Inspect(root, func(n dst.Node) bool {
			if n == nil {
				nils++
				return false
			}
			visited[n] = true
			return !declined(n)
		})
		expect := 0
		expectNil := 0
		for _, n := range want {
			ok := true
			for a := parent[n]; a != nil; a = parent[a] {
				if declined(a) {
					ok = false
					break
				}
			}
			if ok {
				expect++
				if !declined(n) {
					expectNil++
				}
				if !visited[n] {
					c.Violate("prune", "prune:skipped-unpruned:"+refl.TypeName(n), fmt.Sprintf("%s pred %d: %s has no declined ancestor but was not visited", label, p, refl.TypeName(n)), "")
					break
				}
			} else if visited[n] {
				c.Violate("prune", "prune:entered-pruned:"+refl.TypeName(n), fmt.Sprintf("%s pred %d: %s lies under a declined node but was visited", label, p, refl.TypeName(n)), "")
				break
			}
		}
		if len(visited) != expect || nils != expectNil {
			c.Violate("prune", "prune:count", fmt.Sprintf("%s pred %d: visited %d want %d; nil calls %d want %d", label, p, len(visited), expect, nils, expectNil), "")
		}
		if len(want) >= 10 {
			c.Nontrivial(label, fmt.Sprint(p))
		}
		c.Count("predicates", 1)
	}
	return seq
}

func runC13(c *fw.Ctx) {
	files := corpus.Sample(c.Rand("files"), c.Pick(300, 0))
	// the construct snippets and the layout zoo first (rare node shapes)
	inline := map[string]string{}
	for k, v := range extraSnippets() {
		if !strings.HasPrefix(k, "bad:") {
			inline["snippet:"+k] = v
		}
	}
	for k, v := range layoutZoo() {
		inline["zoo:"+k] = v
	}
	var in []string
	for k := range inline {
		in = append(in, k)
	}
	sort.Strings(in)
	files = append(in, files...)
	for i, p := range files {
		if !c.Mine(i) {
			continue
		}
		var src []byte
		if v, ok := inline[p]; ok {
			src = []byte(v)
		} else {
			src = readFile(p)
		}
		if src == nil {
			continue
		}
		id := "file:" + corpus.Rel(p)
		fset := token.NewFileSet()
		af, err := parser.ParseFile(fset, filepath.Base(p), src, parser.ParseComments)
		if err != nil {
			continue
		}
		c.Case(id, func() {
			d := decorator.NewDecorator(fset)
			df, err := d.DecorateFile(af)
			if err != nil {
				c.Violate("decorate-error", "decorate-error", err.Error(), "")
				return
			}
			seq := c13CheckTree(c, id, df, c.Pick(4, 20))
			// (1) ast.Inspect, comments removed, mapped through Dst.Nodes
			var aseq []ast.Node
			ast.Inspect(af, func(n ast.Node) bool {
				switch n.(type) {
				case nil:
					return false
				case *ast.CommentGroup, *ast.Comment:
					return false
				}
				aseq = append(aseq, n)
				return true
			})
			if len(aseq) != len(seq) {
				c.Violate("inspect-vs-ast", "inspect-vs-ast:length", fmt.Sprintf("%s: ast.Inspect %d nodes, dst.Inspect %d", id, len(aseq), len(seq)), string(src))
				return
			}
			var lastPos token.Pos
			_ = lastPos
			for k := range aseq {
				if d.Dst.Nodes[aseq[k]] != seq[k] {
					c.Violate("inspect-vs-ast", "inspect-vs-ast:order:"+refl.TypeName(aseq[k]), fmt.Sprintf("%s: position %d: ast %s maps to %s but dst.Inspect gives %s", id, k, refl.TypeName(aseq[k]), refl.TypeName(d.Dst.Nodes[aseq[k]]), refl.TypeName(seq[k])), string(src))
					return
				}
			}
			// copies made with Clone and attached to the same file (the documented way to duplicate
			// code): the walk still meets every node exactly once
			if len(df.Decls) > 0 {
				orig := len(df.Decls)
				for k := 0; k < orig && k < 6; k++ {
					df.Decls = append(df.Decls, dst.Clone(df.Decls[(k*7)%orig]).(dst.Decl))
				}
				met := map[dst.Node]int{}
				var twice dst.Node
				dst.Inspect(df, func(n dst.Node) bool {
					if n != nil {
						met[n]++
						if met[n] == 2 && twice == nil {
							twice = n
						}
					}
					return true
				})
				if twice != nil {
					c.Violate("visited-twice", "visited-twice:after-clone:"+refl.TypeName(twice), fmt.Sprintf("%s: after appending clones of declarations to the file, dst.Inspect meets a %s twice", id, refl.TypeName(twice)), string(src))
				}
				c.Count("files_with_attached_clones", 1)
				df.Decls = df.Decls[:orig]
			}
			// the same file decorated with import management (syntax-only resolver): only selectors
			// whose operand is a bare identifier that names an import and is not a local object are
			// merged into one identifier; everything else is visited as in go/ast
			c13Goast(c, id, filepath.Base(p), src)
			// (5) siblings in source order
			for _, n := range seq {
				var prev token.Pos
				for _, ch := range refl.DstChildren(n) {
					an := d.Ast.Nodes[ch.Node]
					if an == nil || !an.Pos().IsValid() {
						continue
					}
					pos := an.Pos()
					if ft, ok := an.(*ast.FuncType); ok && ch.Field == "Type" && refl.TypeName(n) == "FuncDecl" {
						// the signature of a declaration follows the name; its Pos() is the func keyword
						pos = ft.Params.Pos()
						if ft.TypeParams != nil {
							pos = ft.TypeParams.Pos()
						}
					}
					if pos < prev {
						c.Violate("source-order", "source-order:"+refl.TypeName(n)+"."+ch.Field, fmt.Sprintf("%s: child %s of %s starts before its predecessor", id, ch.Field, refl.TypeName(n)), string(src))
					}
					prev = pos
				}
			}
			c.Count("files", 1)
			if i < 3 {
				c.Sample(map[string]interface{}{"case": id, "nodes": len(seq)})
			}
		})
	}

	// ParseDir packages
	dirs := map[string]bool{}
	for _, p := range files {
		dirs[filepath.Dir(p)] = true
	}
	var dl []string
	for d := range dirs {
		dl = append(dl, d)
	}
	sort.Strings(dl)
	if len(dl) > c.Pick(25, 400) {
		dl = dl[:c.Pick(25, 400)]
	}
	for i, d := range dl {
		if !c.Mine(i) {
			continue
		}
		c.Case("dir:"+corpus.Rel(d), func() {
			pkgs, err := decorator.ParseDir(token.NewFileSet(), d, nil, 0)
			if err != nil {
				return
			}
			for name, pk := range pkgs {
				c13CheckTree(c, "dir:"+corpus.Rel(d)+"/"+name, pk, 2)
				c.Count("packages", 1)
			}
			// the same directory as a go/ast package decorated as one node: dst.Inspect reaches the
			// counterpart of everything ast.Inspect reaches
			fset := token.NewFileSet()
			apkgs, err := parser.ParseDir(fset, d, nil, parser.ParseComments)
			if err != nil {
				return
			}
			for name, ap := range apkgs {
				c13PackageVsAst(c, "dir:"+corpus.Rel(d)+"/"+name+" [ast.Package]", fset, ap)
			}
		})
	}

	// hand-built go/ast packages whose files carry //line directives (generated code): several files
	// of a package may claim the same source file name, before or after the package clause
	if c.Shard == 0 {
		bodies := []string{"func a() int { return 1 }\n", "type T struct{ X int }\n\nfunc (t T) M() {}\n", "var v = []int{1, 2}\n\nconst k = 3\n"}
		for mask := 0; mask < 27; mask++ {
			id := fmt.Sprintf("line-directive-package:%d", mask)
			c.Case(id, func() {
				fset := token.NewFileSet()
				ap := &ast.Package{Name: "p", Files: map[string]*ast.File{}}
				m := mask
				for k, b := range bodies {
					var src string
					switch m % 3 {
					case 0:
						src = "package p\n\n" + b
					case 1:
						src = "//line gen.y:1\npackage p\n\n" + b
					default:
						src = "package p\n\n//line gen.y:10\n" + b
					}
					m /= 3
					name := fmt.Sprintf("f%d.go", k)
					af, err := parser.ParseFile(fset, name, src, parser.ParseComments)
					if err != nil {
						panic(err)
					}
					ap.Files[name] = af
				}
				c13PackageVsAst(c, id, fset, ap)
				c.Nontrivial(id)
			})
		}
	}

	// reflection-built trees: every child present, and each optional child absent in turn
	idx := 0
	for _, t := range gen.NodeTypes() {
		var variants []string
		variants = append(variants, "")
		st := t.Elem()
		for k := 0; k < st.NumField(); k++ {
			sf := st.Field(k)
			if sf.Name == "Decs" || sf.Name == "Obj" || sf.Name == "Scope" {
				continue
			}
			if optionalChild[st.Name()+"."+sf.Name] || sf.Type.Kind() == reflect.Slice || sf.Type.Kind() == reflect.Map {
				variants = append(variants, st.Name()+"."+sf.Name)
			}
		}
		// present-but-empty lists: *FieldList and *BlockStmt children
		for k := 0; k < st.NumField(); k++ {
			sf := st.Field(k)
			if sf.Type == reflect.TypeOf((*dst.FieldList)(nil)) || sf.Type == reflect.TypeOf((*dst.BlockStmt)(nil)) {
				variants = append(variants, "empty:"+st.Name()+"."+sf.Name)
			}
		}
		for _, omit := range variants {
			i := idx
			idx++
			if !c.Mine(i) {
				continue
			}
			id := "fill:" + st.Name() + "/omit=" + omit
			c.Case(id, func() {
				fl := &gen.Filler{Omit: omit}
				if strings.HasPrefix(omit, "empty:") {
					fl = &gen.Filler{Empty: strings.TrimPrefix(omit, "empty:")}
				}
				n := fl.Fill(t, 3)
				c13CheckTree(c, id, n, c.Pick(6, 40))
				c.Count("filled_trees", 1)
				c.Observe("filled_types", st.Name())
				if omit != "" {
					c.Observe("omitted_fields", omit)
				}
			})
		}
	}
	_ = strings.TrimSpace
}

// c13Goast compares dst.Inspect over a tree decorated with the syntax-only import resolver with
// ast.Inspect, the children of qualified identifiers (decided here from the parser's own object
// resolution and the file's import names) left out.
func c13Goast(c *fw.Ctx, id, name string, src []byte) {
	names, ok := corpus.ImportNames(src)
	if !ok || len(names) == 0 {
		return
	}
	fset := token.NewFileSet()
	af, err := parser.ParseFile(fset, name, src, parser.ParseComments)
	if err != nil {
		return
	}
	bound := map[string]bool{}
	for _, im := range af.Imports {
		p := strings.Trim(im.Path.Value, "\"`")
		n := names[p]
		if im.Name != nil {
			n = im.Name.Name
		}
		if n == "." {
			return // the syntax-only resolver refuses dot-imports
		}
		if n != "" && n != "_" {
			bound[n] = true
		}
	}
	d := decorator.NewDecoratorWithImports(fset, "example.com/self", goast.WithResolver(simple.New(names)))
	var df *dst.File
	if sig, detail := fw.Try(func() { df, err = d.DecorateFile(af) }); sig != "" {
		c.Violate("decorate-panic", sig, id+" [goast]: "+detail, string(src))
		return
	}
	if err != nil {
		c.Count("inconclusive_goast_refused", 1)
		return
	}
	var aseq []ast.Node
	ast.Inspect(af, func(n ast.Node) bool {
		switch v := n.(type) {
		case nil:
			return false
		case *ast.CommentGroup, *ast.Comment:
			return false
		case *ast.SelectorExpr:
			if x, ok := v.X.(*ast.Ident); ok && x.Obj == nil && bound[x.Name] {
				aseq = append(aseq, n)
				return false
			}
		}
		aseq = append(aseq, n)
		return true
	})
	var dseq []dst.Node
	dst.Inspect(df, func(n dst.Node) bool {
		if n != nil {
			dseq = append(dseq, n)
		}
		return true
	})
	c.Count("files_walked_with_import_management", 1)
	if len(aseq) != len(dseq) {
		c.Violate("inspect-vs-ast", "inspect-vs-ast:goast:length", fmt.Sprintf("%s [goast]: ast.Inspect (qualified identifiers counted once) %d nodes, dst.Inspect %d", id, len(aseq), len(dseq)), string(src))
		return
	}
	for k := range aseq {
		if d.Dst.Nodes[aseq[k]] != dseq[k] {
			c.Violate("inspect-vs-ast", "inspect-vs-ast:goast:order:"+refl.TypeName(aseq[k]), fmt.Sprintf("%s [goast]: position %d: ast %s at %s maps to %s but dst.Inspect gives %s", id, k, refl.TypeName(aseq[k]), fset.Position(aseq[k].Pos()), refl.TypeName(d.Dst.Nodes[aseq[k]]), refl.TypeName(dseq[k])), string(src))
			return
		}
	}
}

// c13PackageVsAst decorates a go/ast package as one node and compares what dst.Inspect reaches with
// what ast.Inspect reaches (the order of the files of a package is not specified by either walk).
func c13PackageVsAst(c *fw.Ctx, id string, fset *token.FileSet, ap *ast.Package) {
	d := decorator.NewDecorator(fset)
	var dn dst.Node
	var err error
	if sig, detail := fw.Try(func() { dn, err = d.DecorateNode(ap) }); sig != "" {
		c.Violate("decorate-panic", sig, id+": "+detail, "")
		return
	}
	if err != nil {
		c.Count("inconclusive_package_decoration_error", 1)
		return
	}
	c.Count("ast_packages", 1)
	reached := map[dst.Node]bool{}
	nd := 0
	dst.Inspect(dn, func(n dst.Node) bool {
		if n != nil {
			reached[n] = true
			nd++
		}
		return true
	})
	na := 0
	var missing ast.Node
	ast.Inspect(ap, func(n ast.Node) bool {
		switch n.(type) {
		case nil:
			return false
		case *ast.CommentGroup, *ast.Comment:
			return false
		}
		na++
		if missing == nil && !reached[d.Dst.Nodes[n]] {
			missing = n
		}
		return true
	})
	if missing != nil {
		c.Violate("inspect-vs-ast", "inspect-vs-ast:package:unreached:"+refl.TypeName(missing), fmt.Sprintf("%s: ast.Inspect reaches a %s at %s whose dst counterpart dst.Inspect never reaches (ast %d nodes, dst %d)", id, refl.TypeName(missing), fset.Position(missing.Pos()), na, nd), "")
		return
	}
	if na != nd {
		c.Violate("inspect-vs-ast", "inspect-vs-ast:package:length", fmt.Sprintf("%s: ast.Inspect %d nodes, dst.Inspect %d", id, na, nd), "")
	}
}

// optionalChild lists the child fields go/ast documents as "or nil" (transcribed from the go/ast
// type declarations; dst mirrors them). Trees with a nil mandatory child are malformed and outside
// the statement.
var optionalChild = map[string]bool{
	"ArrayType.Len": true, "CaseClause.List": true, "CommClause.Comm": true, "CompositeLit.Type": true, "Ellipsis.Elt": true,
	"Field.Tag": true, "FuncDecl.Recv": true, "FuncDecl.Body": true, "FuncType.TypeParams": true, "FuncType.Results": true,
	"ForStmt.Init": true, "ForStmt.Cond": true, "ForStmt.Post": true, "IfStmt.Init": true, "IfStmt.Else": true, "ImportSpec.Name": true,
	"RangeStmt.Key": true, "RangeStmt.Value": true, "SliceExpr.Low": true, "SliceExpr.High": true, "SliceExpr.Max": true,
	"SwitchStmt.Init": true, "SwitchStmt.Tag": true, "TypeAssertExpr.Type": true, "TypeSwitchStmt.Init": true, "TypeSpec.TypeParams": true,
	"ValueSpec.Type": true, "BranchStmt.Label": true,
}
