package props

import (
	"bytes"
	"fmt"
	"github.com/dave/dst/decorator/resolver"
	"github.com/dave/dst/decorator/resolver/goast"
	"github.com/dave/dst/decorator/resolver/gobuild"
	"go/ast"
	"go/build"
	"go/parser"
	"go/token"
	"go/types"
	"sort"
	"strings"

	"github.com/dave/dst"
	"github.com/dave/dst/decorator"
	"github.com/dave/dst/decorator/resolver/gotypes"
	"github.com/dave/dst/decorator/resolver/guess"
	"github.com/dave/dst/decorator/resolver/simple"

	"verif/internal/fw"
	"verif/internal/gen"
)

func init() {
	fw.Register(&fw.Check{
		ID:    "C10",
		Level: "exploration",
		Rule: "cases: generated type-correct programs (main package of 2-4 files, each naming the five library packages differently: plain, alias, dot-import, not imported; two libraries " +
			"share a package name, one is vendored, one has a name unlike its path), decorated with the types-based resolver; histories of 1-4 moves of a declaration into another file of " +
			"the same package, or (with ResolveLocalPath) into a file of a different package that has its own imports and aliases; target files restored with import management (exact " +
			"name resolver, with and without FileRestorer.Alias overrides). Oracle (go/types only): the restored files parse and type-check, and the sequence of (package path, object " +
			"name, object kind) denoted by the identifiers of every moved declaration equals the sequence before the move. Proviso from the statement is guaranteed by construction: no " +
			"declared name equals an import name the restorer can choose, and declarations moved across packages refer to no unexported object. " +
			"distinct_nontrivial = distinct (source naming, target naming, snippet) move cells executed.",
		Floor: 100,
		Run:   runC10,
		Assumptions: []string{
			"go/types with an in-memory importer over the generated libraries is the reference for what an identifier denotes",
		},
		Required: map[string]int{"move_kinds": 2},
	})
}

func libNames() map[string]string {
	m := map[string]string{}
	for _, l := range gen.Libs {
		m[l.ImportPath] = l.Name
	}
	m["ex.com/self"] = "self"
	return m
}

// denotations lists, in traversal order, what the identifiers of a declaration denote at package
// level: "pkgpath.Name/kind". Package-name qualifiers and everything local are left out.
func denotations(decl ast.Node, info *types.Info) []string {
	var out []string
	ast.Inspect(decl, func(n ast.Node) bool {
		id, ok := n.(*ast.Ident)
		if !ok {
			return true
		}
		obj := info.Uses[id]
		if obj == nil {
			return true
		}
		if _, isPkg := obj.(*types.PkgName); isPkg {
			return true
		}
		if obj.Pkg() == nil || obj.Parent() != obj.Pkg().Scope() {
			return true
		}
		out = append(out, fmt.Sprintf("%s.%s/%T", oracleStripVendor(obj.Pkg().Path()), obj.Name(), obj))
		return true
	})
	return out
}

func declName(d ast.Decl) string {
	switch x := d.(type) {
	case *ast.FuncDecl:
		return x.Name.Name
	case *ast.GenDecl:
		if len(x.Specs) > 0 {
			switch s := x.Specs[0].(type) {
			case *ast.ValueSpec:
				return s.Names[0].Name
			case *ast.TypeSpec:
				return s.Name.Name
			}
		}
	}
	return ""
}

func dstDeclName(d dst.Decl) string {
	switch x := d.(type) {
	case *dst.FuncDecl:
		return x.Name.Name
	case *dst.GenDecl:
		if x.Tok.String() == "import" {
			return ""
		}
		if len(x.Specs) > 0 {
			switch s := x.Specs[0].(type) {
			case *dst.ValueSpec:
				return s.Names[0].Name
			case *dst.TypeSpec:
				return s.Name.Name
			}
		}
	}
	return ""
}

func runC10(c *fw.Ctx) {
	n := c.Pick(5000, 60000)
	for i := 0; i < n; i++ {
		if !c.Mine(i) {
			continue
		}
		id := fmt.Sprintf("program:%d", i)
		c.Case(id, func() { c10One(c, id, i) })
	}
}

func c10One(c *fw.Ctx, id string, i int) {
	r := c.Rand(id)
	cross := i%3 == 2
	p := gen.GenProgram(r, 2+r.Intn(3))
	srcs := map[string]string{}
	for _, f := range p.Files {
		srcs[f.Name] = f.Src
	}
	files, info, selfPkg, err := p.Check(srcs, p.PkgPath)
	if err != nil {
		c.Count("inconclusive_program_rejected_by_go_types", 1)
		return
	}
	// a second package with its own file (target of cross-package moves)
	otherSpec := &gen.FileSpec{Name: "o0.go", Naming: map[string]string{}, Snippets: []int{r.Intn(len(gen.Snippets)), r.Intn(len(gen.Snippets))}}
	for _, k := range []string{"A", "B", "C", "D", "E", "F", "G", "H"} {
		switch r.Intn(3) {
		case 1:
			otherSpec.Naming[k] = "o" + strings.ToLower(k)
		}
	}
	if r.Intn(3) == 0 {
		otherSpec.Naming["D"] = "."
	}
	for _, k := range []string{"A", "B", "C", "E", "F", "G", "H"} {
		if r.Intn(4) == 0 {
			otherSpec.Blank = append(otherSpec.Blank, k)
		}
	}
	otherSrc := gen.RenderFile(otherSpec, "other", 99)
	ofiles, oinfo, _, oerr := p.Check(map[string]string{"o0.go": otherSrc}, "ex.com/other")
	if oerr != nil {
		c.Count("inconclusive_other_package_rejected", 1)
		return
	}
	// decorate
	dself := decorator.NewDecoratorWithImports(p.Fset, p.PkgPath, gotypes.New(info.Uses))
	dself.ResolveLocalPath = cross
	var dfiles []*dst.File
	before := map[string][]string{}            // decl name -> denotations
	stmtDenotations := map[string][][]string{} // st* function name -> denotations per body statement
	// same-package histories of programs without dot-imports are, every other time, decorated as a
	// whole *ast.Package with the syntax-based resolver (each file against its own imports)
	asPackage := false
	if !cross && r.Intn(2) == 0 {
		asPackage = true
		for _, fs := range p.Files {
			for _, nm := range fs.Naming {
				if nm == "." {
					asPackage = false
				}
			}
		}
	}
	// ... or file by file, each in a file set of its own, with one syntax-based resolver shared by
	// all of them (its per-file state must not mix up files of different file sets)
	var sharedGoast *goast.DecoratorResolver
	var ownFsetFiles map[int]*dst.File
	if asPackage && r.Intn(2) == 0 {
		asPackage = false
		names := map[string]string{}
		for _, l := range gen.Libs {
			names[l.ImportPath] = l.Name
		}
		sharedGoast = goast.WithResolver(simple.New(names))
		ownFsetFiles = map[int]*dst.File{}
		for k, fs := range p.Files {
			fset := token.NewFileSet()
			af2, err := parser.ParseFile(fset, fs.Name, fs.Src, parser.ParseComments)
			if err != nil {
				sharedGoast = nil
				break
			}
			df2, err := decorator.NewDecoratorWithImports(fset, p.PkgPath, sharedGoast).DecorateFile(af2)
			if err != nil {
				c.Violate("decorate-error", "decorate-error:shared-goast", id+": "+err.Error(), fs.Src)
				return
			}
			ownFsetFiles[k] = df2
		}
		if sharedGoast != nil {
			c.Count("histories_decorated_with_shared_goast_and_own_filesets", 1)
		}
	}
	var pkgNode *dst.Package
	if asPackage {
		names := map[string]string{}
		for _, l := range gen.Libs {
			names[l.ImportPath] = l.Name
		}
		apkg := &ast.Package{Name: "self", Files: map[string]*ast.File{}}
		for k, af := range files {
			apkg.Files[fmt.Sprintf("m%d.go", k)] = af
		}
		dpk := decorator.NewDecoratorWithImports(p.Fset, p.PkgPath, goast.WithResolver(simple.New(names)))
		dn, err := dpk.DecorateNode(apkg)
		if err != nil {
			c.Violate("decorate-error", "decorate-error:package", id+": "+err.Error(), "")
			return
		}
		pkgNode = dn.(*dst.Package)
		c.Count("histories_decorated_as_package", 1)
	}
	for k, af := range files {
		var df *dst.File
		var err error
		if sharedGoast != nil {
			df = ownFsetFiles[k]
		} else if pkgNode != nil {
			df = pkgNode.Files[fmt.Sprintf("m%d.go", k)]
			if df == nil {
				c.Violate("decorate-error", "decorate-error:package", id+": file missing in the decorated package", "")
				return
			}
		} else {
			df, err = dself.DecorateFile(af)
		}
		if err != nil {
			c.Violate("decorate-error", "decorate-error", id+": "+err.Error(), "")
			return
		}
		dfiles = append(dfiles, df)
		for _, d := range af.Decls {
			if n := declName(d); n != "" {
				before[n] = denotations(d, info)
				recordStmts(d, info, stmtDenotations)
			}
		}
	}
	dother := decorator.NewDecoratorWithImports(p.Fset, "ex.com/other", gotypes.New(oinfo.Uses))
	dother.ResolveLocalPath = true
	otherDst, err := dother.DecorateFile(ofiles[0])
	if err != nil {
		c.Violate("decorate-error", "decorate-error", id+": "+err.Error(), otherSrc)
		return
	}
	for _, d := range ofiles[0].Decls {
		if n := declName(d); n != "" {
			before[n] = denotations(d, oinfo)
			recordStmts(d, oinfo, stmtDenotations)
		}
	}

	// moves
	nmoves := 1 + r.Intn(4)
	var moved []string
	var log []string
	for m := 0; m < nmoves; m++ {
		si := r.Intn(len(dfiles))
		src := dfiles[si]
		var cands []int
		for k, d := range src.Decls {
			n := dstDeclName(d)
			if n == "" || n == "helper" {
				continue
			}
			if cross && strings.HasPrefix(n, "local") {
				continue // refers to the unexported helper(): outside the proviso for cross-package moves
			}
			cands = append(cands, k)
		}
		if len(cands) == 0 {
			continue
		}
		k := cands[r.Intn(len(cands))]
		decl := src.Decls[k]
		name := dstDeclName(decl)
		var target *dst.File
		tname := ""
		if cross {
			target, tname = otherDst, "o0.go"
			c.Observe("move_kinds", "cross-package")
		} else {
			ti := (si + 1 + r.Intn(len(dfiles)-1)) % len(dfiles)
			target, tname = dfiles[ti], p.Files[ti].Name
			c.Observe("move_kinds", "same-package")
		}
		src.Decls = append(append([]dst.Decl(nil), src.Decls[:k]...), src.Decls[k+1:]...)
		target.Decls = append(target.Decls, decl)
		moved = append(moved, name)
		log = append(log, fmt.Sprintf("%s: %s -> %s", name, p.Files[si].Name, tname))
		srcNaming, tgtNaming := fmt.Sprint(p.Files[si].Naming), ""
		if cross {
			tgtNaming = fmt.Sprint(otherSpec.Naming)
		} else {
			for ti, f := range dfiles {
				if f == target {
					tgtNaming = fmt.Sprint(p.Files[ti].Naming)
				}
			}
		}
		c.Nontrivial(srcNaming, tgtNaming, strings.TrimRight(name, "0123456789_"))
		c.Count("moves", 1)
	}
	// statement moves: a self-contained statement of one st* function is appended to the body of a
	// st* function in another file (same package) or in the other package
	stFuncs := func(f *dst.File) []*dst.FuncDecl {
		var out []*dst.FuncDecl
		for _, d := range f.Decls {
			if fd, ok := d.(*dst.FuncDecl); ok && strings.HasPrefix(fd.Name.Name, "st") && fd.Body != nil {
				out = append(out, fd)
			}
		}
		return out
	}
	var stmtMoves []string
	for m := 0; m < 1+r.Intn(3); m++ {
		si := r.Intn(len(dfiles))
		srcFns := stFuncs(dfiles[si])
		if len(srcFns) == 0 {
			continue
		}
		sf := srcFns[r.Intn(len(srcFns))]
		if len(sf.Body.List) < 2 {
			continue
		}
		var tgtFns []*dst.FuncDecl
		if cross {
			tgtFns = stFuncs(otherDst)
		} else {
			for ti, f := range dfiles {
				if ti != si {
					tgtFns = append(tgtFns, stFuncs(f)...)
				}
			}
		}
		if len(tgtFns) == 0 {
			continue
		}
		tf := tgtFns[r.Intn(len(tgtFns))]
		k := r.Intn(len(sf.Body.List))
		st := sf.Body.List[k]
		sf.Body.List = append(append([]dst.Stmt(nil), sf.Body.List[:k]...), sf.Body.List[k+1:]...)
		tf.Body.List = append(tf.Body.List, st)
		stmtMoves = append(stmtMoves, sf.Name.Name+"["+fmt.Sprint(k)+"] -> "+tf.Name.Name)
		// expected denotations: the statement's travel from the giving to the receiving function
		moving := stmtDenotations[sf.Name.Name][k]
		var rest [][]string
		rest = append(rest, stmtDenotations[sf.Name.Name][:k]...)
		rest = append(rest, stmtDenotations[sf.Name.Name][k+1:]...)
		stmtDenotations[sf.Name.Name] = rest
		stmtDenotations[tf.Name.Name] = append(stmtDenotations[tf.Name.Name], moving)
		flatten := func(xs [][]string) []string {
			var out []string
			for _, x := range xs {
				out = append(out, x...)
			}
			return out
		}
		before[sf.Name.Name] = flatten(stmtDenotations[sf.Name.Name])
		before[tf.Name.Name] = flatten(stmtDenotations[tf.Name.Name])
		moved = append(moved, tf.Name.Name, sf.Name.Name)
		c.Count("statement_moves", 1)
		c.Observe("move_kinds", "statement")
	}
	log = append(log, stmtMoves...)
	if len(moved) == 0 {
		return
	}
	// restore
	names := libNames()
	restore := func(f *dst.File, pkgPath string, alias map[string]string) (string, string) {
		// the exact name table through either of the two map-backed resolvers
		var rres resolver.RestorerResolver = simple.New(names)
		if len(alias)%2 == 1 || len(moved)%2 == 0 {
			rres = guess.WithMap(names)
		}
		if (len(alias)+len(moved))%3 == 2 {
			// the build-context resolver, made by each of its three constructors in turn: package
			// names depend on the directory the importing package lives in (vendoring), so the
			// lookup hook answers only for the directory the resolver was made for
			dir := "/gopath/src/" + pkgPath
			var gb *gobuild.RestorerResolver
			switch len(moved) % 3 {
			case 0:
				gb = gobuild.New(dir)
			case 1:
				gb = gobuild.WithContext(dir, &build.Context{GOPATH: "/gopath"})
			default:
				gb = gobuild.WithHints(dir, map[string]string{"fmt": "fmt"})
			}
			gb.FindPackage = func(ctxt *build.Context, importPath, fromDir string, mode build.ImportMode) (*build.Package, error) {
				if fromDir != dir {
					return &build.Package{Name: "lookedUpFromTheWrongDirectory"}, nil
				}
				if n, ok := names[importPath]; ok {
					return &build.Package{Name: n}, nil
				}
				return nil, nil
			}
			rres = gb
		}
		rs := decorator.NewRestorerWithImports(pkgPath, rres)
		fr := rs.FileRestorer()
		for k, v := range alias {
			fr.Alias[k] = v
		}
		var buf bytes.Buffer
		var err error
		if sig, detail := fw.Try(func() { err = fr.Fprint(&buf, f) }); sig != "" {
			return "", sig + "\n" + detail
		}
		if err != nil {
			return "", err.Error()
		}
		return buf.String(), ""
	}
	// FileRestorer.Alias overrides: a name, "." or "_" (the last is how a tool pins a side-effect
	// import; it must not stop the restorer from naming the package once moved code uses it)
	var alias map[string]string
	if r.Intn(2) == 0 {
		alias = map[string]string{}
		for _, l := range gen.Libs {
			switch r.Intn(8) {
			case 0:
				alias[l.ImportPath] = "forced" + strings.ToLower(l.Key)
			case 1:
				alias[l.ImportPath] = "_"
			case 2:
				if l.Key == "B" || l.Key == "F" { // one more dot-import whose members clash with nothing
					alias[l.ImportPath] = "."
				}
			}
		}
		c.Count("alias_overrides", int64(len(alias)))
	}
	detail := func() string { return fmt.Sprintf("%s moves=%v alias=%v", id, log, alias) }
	newSelf := map[string]string{}
	for k, f := range dfiles {
		out, perr := restore(f, p.PkgPath, alias)
		if perr != "" {
			c.Violate("restore-failed", "restore-failed", detail()+": "+perr, p.Files[k].Src)
			return
		}
		newSelf[p.Files[k].Name] = out
	}
	check := func(srcs map[string]string, pkgPath string, what string) {
		var extra map[string]*types.Package
		if what == "cross-package" {
			// moved code may refer to exported members of the package it came from
			extra = map[string]*types.Package{p.PkgPath: selfPkg}
		}
		nf, ninfo, _, err := (&gen.Program{Fset: token.NewFileSet()}).CheckWith(srcs, pkgPath, extra)
		if err != nil {
			var all []string
			for n, s := range srcs {
				all = append(all, "// "+n+"\n"+s)
			}
			sort.Strings(all)
			c.Violate("does-not-type-check", "does-not-type-check:"+what, detail()+": "+err.Error()+"\n"+strings.Join(all, "\n"), "")
			return
		}
		for _, af := range nf {
			for _, d := range af.Decls {
				n := declName(d)
				isMoved := false
				for _, m := range moved {
					if m == n {
						isMoved = true
					}
				}
				if !isMoved {
					continue
				}
				after := denotations(d, ninfo)
				if strings.Join(after, " ") != strings.Join(before[n], " ") {
					c.Violate("denotation-changed", "denotation-changed:"+what, fmt.Sprintf("%s: moved declaration %s denoted %v, now %v", detail(), n, before[n], after), "")
				}
				c.Count("identifiers_compared", int64(len(after)))
				c.Count("moved_declarations_checked", 1)
			}
		}
	}
	if cross {
		out, perr := restore(otherDst, "ex.com/other", alias)
		if perr != "" {
			c.Violate("restore-failed", "restore-failed", detail()+": "+perr, otherSrc)
			return
		}
		check(map[string]string{"o0.go": out}, "ex.com/other", "cross-package")
		// the source package must still print (it may no longer type-check if others used the moved decl)
	} else {
		check(newSelf, p.PkgPath, "same-package")
	}
	if i < 3 {
		c.Sample(map[string]interface{}{"case": id, "moves": log, "alias": alias})
	}
}

// recordStmts stores, for a st* function, what each of its body statements denotes.
func recordStmts(d ast.Decl, info *types.Info, into map[string][][]string) {
	fd, ok := d.(*ast.FuncDecl)
	if !ok || !strings.HasPrefix(fd.Name.Name, "st") || fd.Body == nil {
		return
	}
	var per [][]string
	for _, st := range fd.Body.List {
		per = append(per, denotations(st, info))
	}
	into[fd.Name.Name] = per
}
