#!/usr/bin/env python3
"""Regenerates MANIFEST.json from the table below (kept as a script so the file stays valid)."""
import json, subprocess
checks = {
 "C01": dict(level="exploration", technique="differential runtime monitor: byte-equality oracle over corpus + seeded comment mutations, 5 entry points",
   text="Runs the real decorate/restore/print pipeline through all five public entry points on every gofmt-canonical file of the toolchain source tree (quick: stratified sample) and on seeded comment/blank-line mutations of them, comparing the printed bytes with the input. Holds only on the inputs executed; witnesses are reduced and classified by dst-independent syntactic predicates so known findings never mask a new root cause.",
   note="trusts go/format (go1.23.5) as the definition of gofmt-canonical; corpus = GOROOT/src + /repo; generated inputs on which gofmt is not idempotent are inconclusive", ref="5/C01"),
}
m = {
 "version": 1,
 "setup_cmd": "./setup.sh",
 "hooks": {
  "guard": "verif",
  "enable": "go build -tags verif (run.sh builds bin/vcheck against /repo's working tree through the replace directive in go.mod)",
  "baseline_off_cmd": "./baseline_off.sh",
  "source_commits": [],
  "add_only": True,
 },
 "engines": [{"name": "vcheck", "path": "cmd/vcheck", "serves_properties": sorted(checks), "kind_free_text": "Go driver + child worker processes running dave/dst in-process under runtime monitors (differential oracles, reference models, fault-injecting resolvers, race detector, strace)"}],
 "checks": [],
 "not_applicable": [],
 "notes": "All checks: ./run.sh <id> <quick|thorough>; VERIF_SEED selects the PRNG seed. Exit 0 held / 1 violation (VIOLATION line) / 2 inconclusive / 3 harness error.",
}
try:
    hooks = open("hooks_commits.txt").read().split()
    m["hooks"]["source_commits"] = hooks
except FileNotFoundError:
    pass
for pid in sorted(checks):
    c = checks[pid]
    m["checks"].append({
     "property_id": pid,
     "quick_cmd": "./run.sh %s quick" % pid,
     "thorough_cmd": "./run.sh %s thorough" % pid,
     "evidence_file": "/verif/evidence/%s.json" % pid,
     "replay_cmd_template": "./run.sh %s --replay {path}" % pid,
     "engine": "vcheck",
     "level_claimed": {"category": c["level"], "text": c["text"], "design_ref": c["ref"]},
     "level_note": c["note"],
     "technique": c["technique"],
    })
all_ids = [json.loads(l)["id"] for l in open("properties.jsonl")]
na = {}
for pid in all_ids:
    if pid not in checks:
        m["not_applicable"].append({"property_id": pid, "reason": na.get(pid, "check not built yet in this round (planned in DESIGN.md section 5)")})
json.dump(m, open("MANIFEST.json", "w"), indent=1)
print("checks:", len(m["checks"]), "not_applicable:", len(m["not_applicable"]))
