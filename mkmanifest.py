#!/usr/bin/env python3
"""Regenerates MANIFEST.json from the table below (kept as a script so the file stays valid)."""
import json, subprocess
checks = {
 "C01": dict(level="exploration", technique="differential runtime monitor: byte-equality oracle over corpus + seeded comment mutations, 5 entry points",
   text="Runs the real decorate/restore/print pipeline through all five public entry points on every gofmt-canonical file of the toolchain source tree (quick: stratified sample) and on seeded comment/blank-line mutations of them, comparing the printed bytes with the input. Holds only on the inputs executed; witnesses are reduced and classified by dst-independent syntactic predicates so known findings never mask a new root cause. Also: every third corpus file and every construct snippet with a //line directive after the package clause (generated-code style); construct snippets cover rare layouts (labels at the end of a block, empty bodies holding only a comment, multi-line generic instantiations and signatures, multi-line raw strings). Also: a package worker that restores every file of a directory with one FileRestorer and prints them afterwards.",
   note="trusts go/format (go1.23.5) as the definition of gofmt-canonical; corpus = GOROOT/src + /repo; generated inputs on which gofmt is not idempotent are inconclusive", ref="5/C01"),
 "C02": dict(level="exploration", technique="model-based history checking: text-chunk edit model + go/format vs dst list edits with Clone",
   text="Generates commented sibling lists of all 9 kinds (case clauses as switch and select clauses; varied element node types) (two lists per file), cuts the chunks from the gofmt-canonical text, applies the same seeded edit history (swap, rotate, reverse, delete, duplicate via Clone, move between lists) to the chunk lists and to the dst node slices, and requires print(dst) == gofmt(edited text). Twelve list kinds since validation (type specs and const specs added). A third of the trailing comments are a block comment followed by a line comment on the element's line.",
   note="only uniform layouts (decided from the text and gofmt) are in the domain; gofmt-non-idempotent texts are inconclusive", ref="5/C02"),
 "C04": dict(level="exploration", technique="online exactly-once monitor on the restorer's Dec hook + placement/order assertions on restored positions + accessor reflection monitor",
   text="Decorates every attachment point (found by reflection) of corpus trees with unique comments, all at once and one site at a time; checks exactly-once in the hook log and in the print, unchanged token stream, placement of Start/End/named points relative to the restored positions of the tokens and children they are named for, order within a node, dstutil.Decorations / Node.Decorations() against the node's own storage, and the round trip of gofmt-stable decorated output. Also: Start / X / End of every package-qualified identifier restored with import management (hook and print exactly-once, documented place). Also: decorations on and around an import alias that the import manager renames (override, override-all, conflict).",
   note="placement is asserted on restored ast positions; points without a token/child referent are order-only", ref="5/C04"),
 "C05": dict(level="exploration", technique="reference-model monitor, exhaustive over all Before/After assignments for n<=3 (n<=4 thorough) x 8 list kinds x 6 comment patterns, plus seeded longer lists",
   text="Enumerates every assignment of None/NewLine/EmptyLine to Before and After of up to 3 (thorough 4) list elements for eight list kinds (two restored with import management) and six Start/End line-comment / newline patterns, prints, and compares the blank-line skeleton read with go/scanner against the model written from the statement (max-combination, fresh-line reduction, explicit newlines, edge blank lines where gofmt keeps them). Eleven list kinds and nine patterns since validation (statements of mixed kinds, bare break/continue, bare blocks; two-line block comment as End decoration; decorations directly after the opening delimiter). Also: a list kind whose elements are 24 different expression node types.",
   note="which list kinds keep edge blank lines is calibrated at run time by asking gofmt on plain text", ref="5/C05"),
 "C07": dict(level="exploration", technique="independent import-table oracle over re-parsed output for seeded import configurations",
   text="Builds files with seeded import-block shapes, references (each uniquely named), alias overrides and resolvers, restores with import management and checks reference binding, exact import set, distinct names, alias precedence, untouched sections and determinism on the re-parsed output. References stand in 18 syntactic positions (calls, type-parameter constraints, field and embedded types, receivers, union terms, instantiations, ...); paths include case twins and raw-string literals. A quarter of the configurations restore as a package that itself lives in a vendor directory.",
   note="precedence asserted only when preferred names do not collide", ref="5/C07"),
 "C08": dict(level="exploration", technique="byte-equality + path-sequence oracle with independently derived package names; go/types (source importer) for the types-based resolver",
   text="Decorates canonical corpus files with goast (exact map) and gotypes (std packages type-checked from source), restores with import management through exact-name resolvers, requires byte identity and the same (Name, Path) sequence after re-decorating; includes comment/line-break mutations around the dot of qualified identifiers and in import specs. Also: generated type-checked programs (gotypes, two dot-imports per file possible), insertions around the whole qualified identifier, a site-exhaustive family over context files, and whole directories through the import-resolving Decorator.ParseDir.",
   note="package names come from package clauses under GOROOT/src / go/types; files failing plain round trip are classified like C01", ref="5/C08"),
 "C09": dict(level="exploration", technique="differential classification of every identifier against go/types; goast vs gotypes agreement inside goast's domain",
   text="For std packages type-checked from source and generated multi-package programs, computes from go/types alone which identifiers denote package-level objects of other packages (vendor prefix stripped by the oracle's own code) and compares with Ident.Path; goast must agree on dot-import-free files and must return an error where it cannot decide. Refused files are queried again (second decorator sharing the resolver, direct ResolveIdent calls). Generated programs are also decorated through NewDecoratorFromPackage with package IDs that differ from the import path; one library path has an element that merely ends in vendor.",
   note="go/types is the reference", ref="5/C09"),
 "C10": dict(level="exploration", technique="go/types before/after oracle over seeded move histories in generated multi-package programs",
   text="Moves declarations between files of one package and into a different package (ResolveLocalPath), restores the targets with import management (with and without alias overrides), re-type-checks and compares what every identifier of the moved code denotes. One library path has an element that merely ends in vendor.",
   note="the statement's proviso (no shadowing of chosen import names, no unexported references across packages) holds by construction of the generator", ref="5/C10"),
 "C18": dict(level="exploration", technique="graph-isomorphism monitor on object/scope graphs (first-occurrence labelling) + differential against go/ast.NewPackage",
   text="Compares the parser's identifier-resolution graph with the decorated and the Extras-restored graphs (sharing partition, kind, name, data, declaration links through the node maps, file scopes) and dst.NewPackage with ast.NewPackage (nil importer and mirrored fake importer/universe) on real and generated multi-file packages. Also: the *ast.Package built by ast.NewPackage is decorated and compared (package scope, Outer chain, Imports objects and their scopes). Also: trees decorated with the syntax-only resolver and type-checked generated programs decorated with the go/types resolver (ResolveLocalPath off and on).",
   note="for redeclared names only presence is compared (winner depends on map order in go/ast too)", ref="5/C18"),
 "C03": dict(level="exploration", technique="differential runtime monitor: go/scanner token + comment streams of dst output vs go/format output over formatting transforms",
   text="Pushes corpus files through nine formatting transforms (CRLF, BOM, spaces, no indentation, trailing whitespace, doubled/removed/whitespace-only blank lines) and raw comment insertions, and compares the scanner token sequence and the comment sequence of dst's output with gofmt's; root cause of a violation is established by re-running on the line-ending-normalised input. Also: a //line directive (LF and CRLF), an own-line / block / end-of-line comment before every token of every construct snippet, and a strict comparison of trailing commas. Also: the token-gap insertions with import management on both sides over files with qualified identifiers in many positions.",
   note="go/format is the reference; cases where gofmt itself rewrites comment text or is not idempotent are inconclusive", ref="5/C03"),
 "C12": dict(level="exploration", technique="position-space monitor: reflection over every token.Pos of the restored ast, file-set disjointness, line table, rank-order isomorphism against a fresh parse with gofmt calibration",
   text="Restores corpus trees (plain, densely decorated, import-managed, Extras) into a caller file set shared by sequences of up to 12 restores interleaved with caller AddFile calls; checks range, disjointness, line table, comment order and the order isomorphism between restored positions and a fresh parse of the printed text. Also: one FileRestorer re-used for three files with line-table / reprint / position snapshots of the earlier files. Also: cloned trees, and a rule that every token of the printed text other than the five positions dst does not model has a restored position.",
   note="comment/token inversions that gofmt reproduces on plain text, or that sit next to a //-comment (printer's pending-semicolon rule), are attributed to go/printer and only counted", ref="5/C12"),
 "C14": dict(level="exploration", technique="differential execution against golang.org/x/tools astutil.Apply under seeded cursor-operation scripts",
   text="Runs the same script of pre/post decisions and cursor edits through dstutil.Apply on the dst tree and astutil.Apply on the go/ast tree it was decorated from, and compares callback logs (with the cursor invariant evaluated at each callback), panic parity, returned roots and final tree shapes. Also: root scripts (the root replaced in pre/post, abort at or below it).",
   note="astutil v0.1.12 is the reference model; callbacks on nil children are not compared", ref="5/C14"),
 "C16": dict(level="exploration", technique="Go race detector (-race build) + sequential-equivalence and repetition monitors under hook-injected yields",
   text="Runs rounds of 2-128 goroutines with private decorators/restorers and shared resolvers in a -race binary, perturbing the schedule at verifhook points outside the resolver lock; every race report is a violation, every concurrent result must equal the same call made alone, and repeated calls must give identical bytes. Evidence records the maximum number of goroutines simultaneously inside the shared resolver, cache hits/misses and distinct interleaving hashes. Also: a shared gobuild resolver, a restore-only first operation per goroutine, read-only-resolver monitors, and groups of files decorated as one *ast.Package repeatedly (map order). Also: a worker operation that restores three files with one FileRestorer and prints them afterwards.",
   note="race detector reports only races that occur on the executed schedules", ref="5/C16"),
 "C17": dict(level="fault_enumeration", technique="fault injection at the resolver interfaces (fail-at-k wrappers) with reflection snapshots and retry comparison",
   text="For each file a clean run counts the resolver calls K; the k-th call is then made to fail for every k (all k <= 48, else 48 sampled), for the identifier resolver during decoration and the package-name resolver during import-managed restore, plus failures inside goast's cache, a genuinely missing name, and fail-fail-retry sequences. Seven fault kinds since validation (alias overrides in every scenario; identifier resolver failing inside Decorator.Parse of a source with a recoverable syntax error). Ninth fault kind: resolver failures under Decorator.ParseDir on a scratch directory.",
   note="exhaustive over fault positions per file when K <= 48", ref="5/C17"),
 "C20": dict(level="fault_enumeration", technique="strace system-call monitor around Package.SaveWithResolver in a child process + directory snapshots + resolver fault injection per file index",
   text="Saves hand-built packages (1-10 files in 1-3 directories, unedited / edited / resolver failing at the first use of a path in file i) in a child under strace; the offline checker requires the set and order of modified paths between two marker syscalls to equal the recorded source paths up to the failing file, and snapshots decide content, modes and bystander integrity. Packages include a generated-code style file (//line directive naming another file) and a file whose imports are referenced only in type positions. Fifth scenario: a type-checked package decorated as Load does (go/types resolver) under a plain, vendored, GOROOT-vendored or govendor-like own path, saved unedited.",
   note="strace -f sees all threads of the child; expected bytes are computed independently in the parent", ref="5/C20"),
 "C06": dict(level="exploration", technique="reflection monitors: deep-equality, storage-disjointness, scramble-and-recheck, print equality, shared-node rejection",
   text="Clones reflection-built instances of all 54 node types (every field non-zero) and densely decorated corpus trees; the monitor's own reflection walker checks structural equality, disjoint pointers/maps/backing arrays, that mutating either side leaves an independent snapshot of the other unchanged, that substituting clones prints identically, and that one node at two places makes RestoreFile panic while a clone prints. Package.Imports is filled with package objects and must be dropped by Clone. Also: one node in two files restored by one Restorer (4 entry points).",
   note="FuncDecl.Type.Decs.Before/After and File.Unresolved are outside the statement (never consulted by printing / part of object resolution) and are cleared in the inputs", ref="5/C06"),
 "C11": dict(level="exploration", technique="online map-law monitor over Decorator.Map and Restorer.Map (inverse, totality, type agreement, edge preservation, nil keys)",
   text="Decorates and restores corpus files in four configurations (plain, Extras, goast import resolution, edited paths forcing selector synthesis) and checks the node-map laws against independent ast.Inspect / dst.Inspect enumerations. Also: pairs of files through one Decorator (as *ast.Package and through Decorator.ParseDir) and one Restorer, with the first file's laws re-checked after the second restore. Also: hand-built trees of every node type with each optional child, list or parameter list absent in turn.",
   note="entries for detached object declarations are allowed as extra keys; laws are enforced for every node inside either tree", ref="5/C11"),
 "C13": dict(level="exploration", technique="differential traversal monitor against go/ast.Inspect and a reflection-derived child list; bracket-discipline and pruning checkers",
   text="Compares dst.Inspect/Walk visit logs with go/ast's traversal of the source ast (through the node map), with the reflection pre-order, with the well-nestedness of enter/nil events, and with the exact visited set under seeded pruning predicates, on corpus files, ParseDir packages and filled instances of every node type with each optional child absent in turn. Also: go/ast packages (corpus directories, hand-built packages with //line directives claiming one file name) decorated as one node, dst.Inspect against ast.Inspect.",
   note="trees with a nil mandatory child are malformed and excluded (go/ast itself calls Visit(nil) on them)", ref="5/C13"),
 "C15": dict(level="exploration", technique="crash monitor: recover() + child-process death attribution over seeded byte corruptions and a hostile input list",
   text="Feeds corrupted, truncated, spliced and hostile byte strings to every parse entry point and prints every tree returned; any panic, process death, (nil,nil) result or unreported parser error is a violation. Also: a comment, line break or truncation before every token of every construct snippet, and directories through the import-resolving Decorator.ParseDir.",
   note="deaths of a worker process are attributed through a per-case journal and the shard is resumed after the culprit", ref="5/C15"),
 "C19": dict(level="exploration", technique="model-based history checking against a []string reference model with arena snapshots for aliasing",
   text="Random operation histories on one Decorations list are stepped in lock-step with a plain []string model; caller-side slices live in a shared arena that is snapshotted around each call and later mutated by the caller to expose retained aliases; rendering is compared with All(). Arguments may be sub-slices of All() or slices kept from an earlier All(); slices returned by All() must only change through the caller's own writes; rendering is checked at 21 decoration points. Renderings also go through a file restorer that has already printed another decorated file.",
   note="writes through the slice returned by All() are treated as legitimate writes to the node's own storage", ref="5/C19"),
}
m = {
 "version": 1,
 "setup_cmd": "./setup.sh",
 "hooks": {
  "guard": "verif",
  "enable": "go build -tags verif (run.sh builds bin/vcheck against /repo's working tree through the replace directive in go.mod)",
  "baseline_off_cmd": "./baseline_off.sh",
  "source_commits": [],
  "add_only": True,
 },
 "engines": [{"name": "vcheck", "path": "cmd/vcheck", "serves_properties": sorted(checks), "kind_free_text": "Go driver + child worker processes running dave/dst in-process under runtime monitors (differential oracles, reference models, fault-injecting resolvers, race detector, strace)"}],
 "checks": [],
 "not_applicable": [],
 "notes": "All checks: ./run.sh <id> <quick|thorough>; VERIF_SEED selects the PRNG seed. Exit 0 held / 1 violation (VIOLATION line) / 2 inconclusive / 3 harness error.",
}
try:
    hooks = open("hooks_commits.txt").read().split()
    m["hooks"]["source_commits"] = hooks
except FileNotFoundError:
    pass
for pid in sorted(checks):
    c = checks[pid]
    m["checks"].append({
     "property_id": pid,
     "quick_cmd": "./run.sh %s quick" % pid,
     "thorough_cmd": "./run.sh %s thorough" % pid,
     "evidence_file": "/verif/evidence/%s.json" % pid,
     "replay_cmd_template": "./run.sh %s --replay {path}" % pid,
     "engine": "vcheck",
     "level_claimed": {"category": c["level"], "text": c["text"], "design_ref": c["ref"]},
     "level_note": c["note"],
     "technique": c["technique"],
    })
all_ids = [json.loads(l)["id"] for l in open("properties.jsonl")]
na = {}
for pid in all_ids:
    if pid not in checks:
        m["not_applicable"].append({"property_id": pid, "reason": na.get(pid, "check not built yet in this round (planned in DESIGN.md section 5)")})
json.dump(m, open("MANIFEST.json", "w"), indent=1)
print("checks:", len(m["checks"]), "not_applicable:", len(m["not_applicable"]))
