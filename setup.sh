#!/bin/sh
# Offline build of the verification driver from files on disk only.
cd "$(dirname "$0")" || exit 1
export GOFLAGS=-mod=mod GOPROXY=off GOSUMDB=off GOTOOLCHAIN=local
cp /repo/go.sum go.sum
mkdir -p bin evidence replays
go build -tags verif -o bin/vcheck ./cmd/vcheck
