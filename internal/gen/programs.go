package gen

import (
	"fmt"
	"go/ast"
	"go/parser"
	"go/token"
	"go/types"
	"math/rand"
	"sort"
	"strings"
)

// Lib is a library package of a generated program.
type Lib struct {
	Key        string // short key used in snippets
	ImportPath string // what files write in their import declarations
	PkgPath    string // types.Package.Path() (differs for the vendored one)
	Name       string
	Src        string
	CanDot     bool
}

// Libs of every generated program. Two packages are both named util; one has a name different from
// its last path element; one has a dot in its first element; one is vendored.
var Libs = []Lib{
	{Key: "A", ImportPath: "ex.com/a/util", PkgPath: "ex.com/a/util", Name: "util", CanDot: true, Src: `package util

type T struct{ X, Y int }

func (t T) M() int { return t.X }

func F(x int) int { return x }

var V = 1

var Obj = T{X: 1}

const C = 2

type G[P any] struct{ Val P }

func Gen[P any](p P) P { return p }

type I interface{ M() int }
`},
	{Key: "B", ImportPath: "ex.com/b/util", PkgPath: "ex.com/b/util", Name: "util", Src: `package util

func F2() int { return 2 }

var W = "w"

type U struct{ Z int }
`},
	{Key: "C", ImportPath: "ex.org/c/go-thing.v2", PkgPath: "ex.org/c/go-thing.v2", Name: "thing", Src: `package thing

type K int

const One K = 1

func Do(k K) K { return k }
`},
	{Key: "D", ImportPath: "plain/dotpkg", PkgPath: "plain/dotpkg", Name: "dotpkg", CanDot: true, Src: `package dotpkg

func DotF() int { return 3 }

var DotV = 4

type DotT struct{ A int }

func (d DotT) DM() int { return d.A }

var DotObj = DotT{A: 1}
`},
	{Key: "E", ImportPath: "golang.org/x/foo", PkgPath: "ex.com/self/vendor/golang.org/x/foo", Name: "foo", Src: `package foo

func Bar() int { return 5 }

type Opt struct{ On bool }
`},
	{Key: "F", ImportPath: "golang.org/x/bar", PkgPath: "ex.com/self/vendor/ex.org/dep/vendor/golang.org/x/bar", Name: "bar", Src: `package bar

func Baz() int { return 6 }
`},
	// a path element that merely ends in "vendor" (as github.com/kardianos/govendor/...): not a vendor directory
	{Key: "G", ImportPath: "ex.com/govendor/ctx", PkgPath: "ex.com/govendor/ctx", Name: "ctx", Src: `package ctx

func With(n int) int { return n }

type Key struct{ N int }
`},
	// a one-element import path whose package is named differently
	{Key: "H", ImportPath: "rootlib", PkgPath: "rootlib", Name: "rl", Src: `package rl

func Root() int { return 7 }

type RT struct{ R int }
`},
}

// Snippet is a declaration that uses some libraries. Q(key) is replaced by the qualifier the file
// uses for that library ("util.", "ua.", or "" for a dot-import).
type Snippet struct {
	Uses []string
	Code string // uses ${A} ${B} ... as qualifiers and ${N} as a unique suffix
}

var Snippets = []Snippet{
	{[]string{"A"}, "func call${N}() int {\n\treturn ${A}F(${A}V) + ${A}C\n}"},
	{[]string{"A"}, "func lit${N}() int {\n\tt := ${A}T{X: 1, Y: 2}\n\treturn t.M() + t.X\n}"},
	{[]string{"A"}, "var gen${N} = ${A}Gen[${A}T](${A}T{X: 3})"},
	{[]string{"A"}, "type emb${N} struct {\n\t${A}T\n\tg ${A}G[int]\n}"},
	{[]string{"A"}, "func mv${N}(t ${A}T) func() int {\n\tf := t.M\n\tvar i ${A}I = t\n\t_ = i\n\treturn f\n}"},
	{[]string{"B"}, "func b${N}() (int, string) {\n\tu := ${B}U{Z: 1}\n\treturn ${B}F2() + u.Z, ${B}W\n}"},
	{[]string{"C"}, "func c${N}() ${C}K {\n\treturn ${C}Do(${C}One)\n}"},
	{[]string{"D"}, "func d${N}() int {\n\tv := ${D}DotT{A: ${D}DotV}\n\treturn ${D}DotF() + v.A\n}"},
	{[]string{"E"}, "func e${N}() int {\n\to := ${E}Opt{On: true}\n\t_ = o\n\treturn ${E}Bar()\n}"},
	{[]string{"F"}, "func f${N}() int {\n\treturn ${F}Baz()\n}"},
	{[]string{"G"}, "func g${N}() int {\n\tk := ${G}Key{N: 1}\n\treturn ${G}With(k.N)\n}"},
	{[]string{"D"}, "type dd${N} ${D}DotT\n\ntype da${N} = ${D}DotT"},
	{[]string{"A"}, "type ad${N} ${A}T\n\ntype aa${N} = ${A}G[int]"},
	{[]string{"H"}, "func h${N}() int {\n\tv := ${H}RT{R: ${H}Root()}\n\treturn v.R\n}"},
	{[]string{"A", "B"}, "func ab${N}() int {\n\treturn ${A}F(${B}F2())\n}"},
	{[]string{"A", "C"}, "var ac${N} = map[${C}K]${A}T{${C}One: {X: 1}}"},
	{nil, "func local${N}() int {\n\tx := len(\"abc\")\n\tvar y int = x\nL:\n\tfor y > 0 {\n\t\ty--\n\t\tcontinue L\n\t}\n\treturn y + helper()\n}"},
	{[]string{"A"}, "func sel${N}() int {\n\treturn ${A}Obj.X + ${A}Obj.M()\n}"},
	{[]string{"A"}, "var mexp${N} = ${A}T.M"},
	{[]string{"D"}, "func dsel${N}() int {\n\tf := ${D}DotT.DM\n\treturn ${D}DotObj.A + ${D}DotObj.DM() + f(${D}DotObj)\n}"},
	{[]string{"A", "B"}, "func st${N}() {\n\t_ = ${A}F(${A}V)\n\t_ = ${B}F2()\n\t_ = ${A}T{X: ${A}C}\n}"},
	{[]string{"C", "E"}, "func st${N}() {\n\t_ = ${C}Do(${C}One)\n\t${E}Bar()\n}"},
	{[]string{"D", "F"}, "func st${N}() {\n\t_ = ${D}DotObj.A\n\t_ = ${F}Baz() + ${D}DotF()\n}"},
	{nil, "func shadowLocal${N}(Exported int) int {\n\tHelper := Exported + 1\n\ttype LocalT struct{ Q int }\n\treturn LocalT{Q: Helper}.Q\n}"},
	{nil, "func useLocal${N}() int {\n\tv := LocalT{N: Exported}\n\treturn Helper() + v.N\n}"},
	{[]string{"A"}, "func shadow${N}() int {\n\tV := struct{ F int }{F: 1}\n\treturn V.F + ${A}C\n}"},
	// composite-literal keys: map and array keys are expressions (remote when they name another
	// package's object), struct keys are field names even when a package-level name is spelled the same
	{[]string{"A"}, "var kv${N} = map[int]int{${A}C: ${A}V, 7: ${A}F(1)}"},
	{[]string{"A"}, "var ka${N} = [...]string{${A}C: \"x\"}"},
	{[]string{"D"}, "var kd${N} = map[int]int{${D}DotV: ${D}DotF()}"},
	{[]string{"A"}, "func kf${N}() int {\n\ttype s struct{ V, C int }\n\tx := s{V: ${A}V, C: ${A}C}\n\treturn x.V + x.C\n}"},
	{nil, "var lk${N} = map[int]string{Exported: \"e\", Helper(): \"h\"}"},
	// references that occur only in type positions: constraints of generic types and functions,
	// union terms, instantiations, function types, channel element types
	{[]string{"A"}, "type gt${N}[T ${A}I] struct{ v T }"},
	{[]string{"A"}, "func gf${N}[T ${A}I](x T) int {\n\treturn x.M()\n}"},
	{[]string{"C"}, "type gu${N} interface{ ~int8 | ${C}K }"},
	{[]string{"A", "B"}, "type al${N} = ${A}G[${B}U]"},
	{[]string{"A", "E"}, "var fn${N} func(${E}Opt) ${A}T"},
	{[]string{"B"}, "type ch${N} chan ${B}U"},
	{[]string{"D"}, "type gd${N}[T interface{ DM() int }] struct {\n\tv T\n\tw []func(${D}DotT) *${D}DotT\n}"},
}

// FileSpec describes how one file of the main package names the libraries.
type FileSpec struct {
	Name     string
	Naming   map[string]string // lib key -> "" (plain) | alias | "."
	Snippets []int
	Blank    []string // libraries imported for side effects only (import _ "path")
	Src      string
}

// Program is a generated multi-package program with its type information.
type Program struct {
	Fset    *token.FileSet
	LibPkgs map[string]*types.Package // by import path
	Files   []*FileSpec
	PkgPath string
	Seed    int64
}

// Importer resolves import paths to the generated library packages.
type Importer map[string]*types.Package

func (m Importer) Import(path string) (*types.Package, error) {
	if p, ok := m[path]; ok {
		return p, nil
	}
	return nil, fmt.Errorf("package %q not found", path)
}

var libCache Importer

// LibImporter type-checks the libraries once.
func LibImporter() Importer {
	if libCache != nil {
		return libCache
	}
	imp := Importer{}
	fset := token.NewFileSet()
	for _, l := range Libs {
		f, err := parser.ParseFile(fset, l.Key+".go", l.Src, 0)
		if err != nil {
			panic(err)
		}
		conf := types.Config{Importer: imp}
		pkg, err := conf.Check(l.PkgPath, fset, []*ast.File{f}, nil)
		if err != nil {
			panic(err)
		}
		imp[l.ImportPath] = pkg
	}
	libCache = imp
	return imp
}

func libByKey(k string) Lib {
	for _, l := range Libs {
		if l.Key == k {
			return l
		}
	}
	panic(k)
}

// Qualifier returns what code in a file writes in front of a member of lib k.
func (fs *FileSpec) Qualifier(k string) string {
	n := fs.Naming[k]
	switch n {
	case ".":
		return ""
	case "":
		return libByKey(k).Name + "."
	}
	return n + "."
}

// RenderFile builds the source of a file from its spec.
func RenderFile(fs *FileSpec, pkgName string, unique int) string {
	used := map[string]bool{}
	for _, si := range fs.Snippets {
		for _, k := range Snippets[si].Uses {
			used[k] = true
		}
	}
	var keys []string
	for k := range used {
		keys = append(keys, k)
	}
	sort.Strings(keys)
	var sb strings.Builder
	sb.WriteString("package " + pkgName + "\n\n")
	var blanks []string
	for _, k := range fs.Blank {
		if !used[k] {
			blanks = append(blanks, k)
		}
	}
	if len(keys)+len(blanks) > 0 {
		sb.WriteString("import (\n")
		for _, k := range keys {
			l := libByKey(k)
			if n := fs.Naming[k]; n != "" {
				sb.WriteString("\t" + n + " \"" + l.ImportPath + "\"\n")
			} else {
				sb.WriteString("\t\"" + l.ImportPath + "\"\n")
			}
		}
		for _, k := range blanks {
			sb.WriteString("\t_ \"" + libByKey(k).ImportPath + "\"\n")
		}
		sb.WriteString(")\n\n")
	}
	for j, si := range fs.Snippets {
		code := Snippets[si].Code
		for _, l := range Libs {
			code = strings.ReplaceAll(code, "${"+l.Key+"}", fs.Qualifier(l.Key))
		}
		code = strings.ReplaceAll(code, "${N}", fmt.Sprintf("%s%d_%d", strings.TrimSuffix(fs.Name, ".go"), unique, j))
		sb.WriteString(code + "\n\n")
	}
	return sb.String()
}

// GenProgram generates the main package: nfiles files, each with its own naming of the libraries.
// Names are chosen so that every file compiles: two libraries with the same package name are never
// both imported plainly into one file.
func GenProgram(r *rand.Rand, nfiles int) *Program {
	p := &Program{Fset: token.NewFileSet(), PkgPath: "ex.com/self"}
	aliases := []string{"ua", "ub", "xx", "fmt", "thing"}
	for i := 0; i < nfiles; i++ {
		fs := &FileSpec{Name: fmt.Sprintf("m%d.go", i), Naming: map[string]string{}}
		nsn := 2 + r.Intn(5)
		for k := 0; k < nsn; k++ {
			fs.Snippets = append(fs.Snippets, r.Intn(len(Snippets)))
		}
		used := map[string]bool{}
		for _, si := range fs.Snippets {
			for _, k := range Snippets[si].Uses {
				used[k] = true
			}
		}
		takenNames := map[string]bool{}
		for _, l := range Libs {
			if !used[l.Key] {
				continue
			}
			choice := r.Intn(4)
			name := ""
			switch {
			case choice == 0 && l.CanDot:
				// a dot-import makes the member names visible; the two libraries that can be
				// dot-imported export disjoint names, so one file may dot-import both
				fs.Naming[l.Key] = "."
				continue
			case choice == 1:
				name = aliases[r.Intn(len(aliases))]
			}
			eff := name
			if eff == "" {
				eff = l.Name
			}
			for takenNames[eff] {
				name = fmt.Sprintf("al%d", len(takenNames))
				eff = name
			}
			takenNames[eff] = true
			fs.Naming[l.Key] = name
		}
		for _, l := range Libs {
			if !used[l.Key] && r.Intn(4) == 0 {
				fs.Blank = append(fs.Blank, l.Key)
			}
		}
		p.Files = append(p.Files, fs)
	}
	for i, fs := range p.Files {
		fs.Src = RenderFile(fs, "self", i)
	}
	// one shared helper so that "local" snippets compile
	p.Files[0].Src += "func helper() int { return 0 }\n\n// Exported members of the main package (referenced by moved code across packages).\nfunc Helper() int { return 1 }\n\nvar Exported = 2\n\ntype LocalT struct{ N int }\n"
	return p
}

// Check parses and type-checks the files of the main package.
func (p *Program) Check(srcs map[string]string, pkgPath string) ([]*ast.File, *types.Info, *types.Package, error) {
	return p.CheckWith(srcs, pkgPath, nil)
}

// CheckWith is Check with additional importable packages (e.g. the main package itself when a file
// of another package refers to its exported members).
func (p *Program) CheckWith(srcs map[string]string, pkgPath string, extra map[string]*types.Package) ([]*ast.File, *types.Info, *types.Package, error) {
	var files []*ast.File
	var names []string
	for n := range srcs {
		names = append(names, n)
	}
	sort.Strings(names)
	for _, n := range names {
		f, err := parser.ParseFile(p.Fset, n, srcs[n], parser.ParseComments)
		if err != nil {
			return nil, nil, nil, err
		}
		files = append(files, f)
	}
	info := &types.Info{Uses: map[*ast.Ident]types.Object{}, Defs: map[*ast.Ident]types.Object{}, Selections: map[*ast.SelectorExpr]*types.Selection{}, Implicits: map[ast.Node]types.Object{}}
	imp := Importer{}
	for k, v := range LibImporter() {
		imp[k] = v
	}
	for k, v := range extra {
		imp[k] = v
	}
	conf := types.Config{Importer: imp}
	pkg, err := conf.Check(pkgPath, p.Fset, files, info)
	return files, info, pkg, err
}
