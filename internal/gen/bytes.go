package gen

import (
	"bytes"
	"math/rand"
)

var structural = []byte("{}()[]\"'`/*;,.:=<>-+!&|\n\\")
var keywords = []string{"package", "import", "func", "type", "var", "const", "struct", "interface", "return", "if", "for", "switch", "case", "select", "go", "defer", "chan", "map", "range", "else"}

// Corrupt returns a corrupted copy of src and the name of the corruption kind. If keepHead is
// true, the bytes up to and including the package clause line are left intact.
func Corrupt(r *rand.Rand, src []byte, other []byte, keepHead bool) ([]byte, string) {
	lo := 0
	if keepHead {
		if i := bytes.Index(src, []byte("\npackage ")); i >= 0 {
			if j := bytes.IndexByte(src[i+1:], '\n'); j >= 0 {
				lo = i + 1 + j + 1
			}
		} else if bytes.HasPrefix(src, []byte("package ")) {
			if j := bytes.IndexByte(src, '\n'); j >= 0 {
				lo = j + 1
			}
		}
	}
	if lo >= len(src) {
		lo = 0
	}
	span := len(src) - lo
	if span <= 0 {
		return append([]byte(nil), src...), "none"
	}
	pos := func() int { return lo + r.Intn(span) }
	// bias positions towards structural bytes
	spos := func() int {
		for k := 0; k < 20; k++ {
			p := pos()
			if bytes.IndexByte(structural, src[p]) >= 0 {
				return p
			}
		}
		return pos()
	}
	cp := func() []byte { return append([]byte(nil), src...) }
	switch r.Intn(13) {
	case 0:
		return cp()[:pos()], "truncate"
	case 1:
		p := spos()
		return append(cp()[:p], src[p+1:]...), "delete-structural-byte"
	case 2:
		p := pos()
		b := cp()
		b[p] = structural[r.Intn(len(structural))]
		return b, "replace-with-structural"
	case 3:
		p := pos()
		ins := structural[r.Intn(len(structural))]
		return append(append(cp()[:p], ins), src[p:]...), "insert-structural"
	case 4:
		p := pos()
		b := cp()
		b[p] = byte(r.Intn(256))
		return b, "replace-random-byte"
	case 5:
		if len(other) > 0 {
			p := pos()
			q := r.Intn(len(other))
			return append(cp()[:p], other[q:]...), "splice-two-files"
		}
		return cp()[:pos()], "truncate"
	case 6:
		kw := keywords[r.Intn(len(keywords))]
		idx := bytes.Index(src[lo:], []byte(kw))
		if idx >= 0 {
			p := lo + idx
			return append(cp()[:p], src[p+len(kw):]...), "delete-keyword"
		}
		return cp()[:pos()], "truncate"
	case 7:
		p, q := pos(), pos()
		if p > q {
			p, q = q, p
		}
		return append(cp()[:p], src[q:]...), "delete-range"
	case 8:
		p, q := pos(), pos()
		if p > q {
			p, q = q, p
		}
		if q-p > 2000 {
			q = p + 2000
		}
		return append(append(cp()[:q], src[p:q]...), src[q:]...), "duplicate-range"
	case 9:
		p := pos()
		kw := keywords[r.Intn(len(keywords))]
		return append(append(cp()[:p], []byte(" "+kw+" ")...), src[p:]...), "insert-keyword"
	case 10:
		b := cp()
		for k := 0; k < 1+r.Intn(6); k++ {
			p := spos()
			b[p] = structural[r.Intn(len(structural))]
		}
		return b, "multi-replace"
	case 11:
		p := pos()
		return append(append(cp()[:p], 0), src[p:]...), "insert-nul"
	default:
		p := pos()
		opener := []string{"/*", "`", "\"", "//", "'"}[r.Intn(5)]
		return append(append(cp()[:p], []byte(opener)...), src[p:]...), "insert-opener"
	}
}
