package gen

import (
	"fmt"
	"go/token"
	"reflect"

	"github.com/dave/dst"
)

var (
	nodeType  = reflect.TypeOf((*dst.Node)(nil)).Elem()
	exprType  = reflect.TypeOf((*dst.Expr)(nil)).Elem()
	stmtType  = reflect.TypeOf((*dst.Stmt)(nil)).Elem()
	declType  = reflect.TypeOf((*dst.Decl)(nil)).Elem()
	specType  = reflect.TypeOf((*dst.Spec)(nil)).Elem()
	decsType  = reflect.TypeOf(dst.Decorations{})
	spaceType = reflect.TypeOf(dst.None)
	tokType   = reflect.TypeOf(token.ADD)
)

// NodeTypes lists every concrete dst node type (pointer types), found from a fixed list of zero
// values; the list itself is cross-checked against the dst package by the C13 monitor (every type
// met in the corpus must be in it).
func NodeTypes() []reflect.Type {
	vals := []dst.Node{
		&dst.ArrayType{}, &dst.AssignStmt{}, &dst.BadDecl{}, &dst.BadExpr{}, &dst.BadStmt{}, &dst.BasicLit{}, &dst.BinaryExpr{},
		&dst.BlockStmt{}, &dst.BranchStmt{}, &dst.CallExpr{}, &dst.CaseClause{}, &dst.ChanType{}, &dst.CommClause{},
		&dst.CompositeLit{}, &dst.DeclStmt{}, &dst.DeferStmt{}, &dst.Ellipsis{}, &dst.EmptyStmt{}, &dst.ExprStmt{}, &dst.Field{},
		&dst.FieldList{}, &dst.File{}, &dst.ForStmt{}, &dst.FuncDecl{}, &dst.FuncLit{}, &dst.FuncType{}, &dst.GenDecl{}, &dst.GoStmt{},
		&dst.Ident{}, &dst.IfStmt{}, &dst.ImportSpec{}, &dst.IncDecStmt{}, &dst.IndexExpr{}, &dst.IndexListExpr{}, &dst.InterfaceType{},
		&dst.KeyValueExpr{}, &dst.LabeledStmt{}, &dst.MapType{}, &dst.Package{}, &dst.ParenExpr{}, &dst.RangeStmt{}, &dst.ReturnStmt{},
		&dst.SelectStmt{}, &dst.SelectorExpr{}, &dst.SendStmt{}, &dst.SliceExpr{}, &dst.StarExpr{}, &dst.StructType{}, &dst.SwitchStmt{},
		&dst.TypeAssertExpr{}, &dst.TypeSpec{}, &dst.TypeSwitchStmt{}, &dst.UnaryExpr{}, &dst.ValueSpec{},
	}
	var out []reflect.Type
	for _, v := range vals {
		out = append(out, reflect.TypeOf(v))
	}
	return out
}

// Filler builds dst nodes in which every field is non-zero.
type Filler struct {
	n    int
	Omit string // "Type.Field": leave this one field zero
	// Empty is a "Type.Field" of type *FieldList or *BlockStmt that is set to a present but empty
	// list (func f() () {}, an empty body): a node of its own that traversals must still visit
	Empty string
}

func (f *Filler) id() string {
	f.n++
	return fmt.Sprintf("v%d", f.n)
}

// Fill builds an instance of the pointer type t with every field populated, children recursively
// to the given depth (deeper interface children become identifiers / simple statements).
func (f *Filler) Fill(t reflect.Type, depth int) dst.Node {
	v := reflect.New(t.Elem())
	st := v.Elem()
	for i := 0; i < st.NumField(); i++ {
		sf := st.Type().Field(i)
		if f.Omit == st.Type().Name()+"."+sf.Name {
			continue
		}
		if f.Empty == st.Type().Name()+"."+sf.Name && sf.Type.Kind() == reflect.Ptr {
			st.Field(i).Set(reflect.New(sf.Type.Elem()))
			continue
		}
		fv := st.Field(i)
		f.fillField(st.Type().Name(), sf, fv, depth)
	}
	return v.Interface().(dst.Node)
}

func (f *Filler) child(t reflect.Type, depth int) reflect.Value {
	// t is an interface type (Expr, Stmt, Decl, Spec, Node) or a concrete pointer type
	if t.Kind() == reflect.Ptr {
		// concrete children are always built completely; below depth 0 their interface-typed
		// children become leaves, which terminates the recursion
		return reflect.ValueOf(f.Fill(t, depth-1))
	}
	var choices []dst.Node
	switch t {
	case exprType, nodeType:
		if depth <= 0 {
			return reflect.ValueOf(&dst.Ident{Name: f.id()})
		}
		choices = []dst.Node{&dst.Ident{}, &dst.BasicLit{}, &dst.BinaryExpr{}, &dst.CallExpr{}, &dst.UnaryExpr{}, &dst.ParenExpr{}, &dst.SelectorExpr{}, &dst.IndexExpr{}}
	case stmtType:
		if depth <= 0 {
			return reflect.ValueOf(&dst.ExprStmt{X: &dst.Ident{Name: f.id()}})
		}
		choices = []dst.Node{&dst.ExprStmt{}, &dst.AssignStmt{}, &dst.ReturnStmt{}, &dst.IncDecStmt{}, &dst.BlockStmt{}}
	case declType:
		choices = []dst.Node{&dst.GenDecl{}, &dst.FuncDecl{}}
	case specType:
		if depth < -6 {
			panic("fill: runaway recursion")
		}
		choices = []dst.Node{&dst.ValueSpec{}, &dst.TypeSpec{}, &dst.ImportSpec{}}
	default:
		panic("fill: unknown interface " + t.String())
	}
	c := choices[f.n%len(choices)]
	f.n++
	return reflect.ValueOf(f.Fill(reflect.TypeOf(c), depth-1))
}

func (f *Filler) fillField(owner string, sf reflect.StructField, fv reflect.Value, depth int) {
	t := sf.Type
	switch {
	case sf.Name == "Obj" || sf.Name == "Scope":
		// left nil: object graphs are the business of C18
	case sf.Name == "Decs":
		f.fillDecs(owner, fv)
	case t == decsType:
		fv.Set(reflect.ValueOf(dst.Decorations{"/*" + owner + "." + sf.Name + f.id() + "*/"}))
	case t == tokType:
		fv.Set(reflect.ValueOf(tokenFor(owner)))
	case t.Kind() == reflect.String:
		switch {
		case owner == "BasicLit" && sf.Name == "Value":
			fv.SetString("1")
		case owner == "Ident" && sf.Name == "Path":
			fv.SetString("ex.com/filled/pkg") // filled trees are never printed with a plain restorer
		default:
			fv.SetString(f.id())
		}
	case t.Kind() == reflect.Bool:
		fv.SetBool(true)
	case t.Kind() == reflect.Int && t == spaceType:
		fv.SetInt(int64(1 + f.n%2))
	case t.Kind() == reflect.Int:
		if owner == "ChanType" && sf.Name == "Dir" {
			fv.SetInt(int64(dst.SEND | dst.RECV))
		} else {
			fv.SetInt(3)
		}
	case t.Implements(nodeType):
		fv.Set(f.child(t, depth-1))
	case t.Kind() == reflect.Slice && t.Elem().Implements(nodeType):
		n := 2
		s := reflect.MakeSlice(t, 0, n)
		for k := 0; k < n; k++ {
			s = reflect.Append(s, f.child(t.Elem(), depth-1))
		}
		fv.Set(s)
	case t.Kind() == reflect.Map && t.Elem().Implements(nodeType):
		m := reflect.MakeMap(t)
		for k := 0; k < 2; k++ {
			m.SetMapIndex(reflect.ValueOf(fmt.Sprintf("f%d.go", k)), f.child(t.Elem(), depth-1))
		}
		fv.Set(m)
	case t.Kind() == reflect.Map && t.Elem() == reflect.TypeOf((*dst.Object)(nil)):
		// Package.Imports: package objects whose Data is the imported package's scope
		m := reflect.MakeMap(t)
		for k := 0; k < 2; k++ {
			sc := dst.NewScope(nil)
			sc.Insert(dst.NewObj(dst.Fun, "Member"))
			o := dst.NewObj(dst.Pkg, fmt.Sprintf("imp%d", k))
			o.Data = sc
			m.SetMapIndex(reflect.ValueOf(fmt.Sprintf("ex.com/imp%d", k)), reflect.ValueOf(o))
		}
		fv.Set(m)
	}
}

func (f *Filler) fillDecs(owner string, decs reflect.Value) {
	for i := 0; i < decs.NumField(); i++ {
		sf := decs.Type().Field(i)
		fv := decs.Field(i)
		switch {
		case sf.Name == "NodeDecs":
			nd := dst.NodeDecs{Before: dst.NewLine, After: dst.EmptyLine,
				Start: dst.Decorations{"/*" + owner + ".Start" + f.id() + "*/"},
				End:   dst.Decorations{"/*" + owner + ".End" + f.id() + "*/"}}
			fv.Set(reflect.ValueOf(nd))
		case sf.Type == decsType:
			fv.Set(reflect.ValueOf(dst.Decorations{"/*" + owner + "." + sf.Name + f.id() + "*/", "/*second*/"}))
		}
	}
}

func tokenFor(owner string) token.Token {
	switch owner {
	case "AssignStmt":
		return token.ASSIGN
	case "BasicLit":
		return token.INT
	case "BinaryExpr":
		return token.ADD
	case "BranchStmt":
		return token.BREAK
	case "GenDecl":
		return token.VAR
	case "IncDecStmt":
		return token.INC
	case "RangeStmt":
		return token.DEFINE
	case "UnaryExpr":
		return token.SUB
	}
	return token.ADD
}
