// Package gen holds the seeded input generators.
package gen

import (
	"bytes"
	"fmt"
	"go/format"
	"go/token"
	"math/rand"
	"sort"

	"verif/internal/obs"
)

// Edit is one textual insertion.
type Edit struct {
	Off  int    `json:"off"`
	Text string `json:"text"`
	Kind string `json:"kind"`
}

// ApplyEdits inserts the edits (sorted by offset, stable) into src.
func ApplyEdits(src []byte, edits []Edit) []byte {
	es := append([]Edit(nil), edits...)
	sort.SliceStable(es, func(i, j int) bool { return es[i].Off < es[j].Off })
	var out bytes.Buffer
	last := 0
	for _, e := range es {
		if e.Off < last || e.Off > len(src) {
			continue
		}
		out.Write(src[last:e.Off])
		out.WriteString(e.Text)
		last = e.Off
	}
	out.Write(src[last:])
	return out.Bytes()
}

// CommentEdits chooses n random comment / blank-line insertions into src. Kinds:
// block  — "/*#id*/" between two tokens on one line (before token i)
// eol    — " //#id" at the end of a line that ends in a token
// own    — own-line "//#id" comment before a line
// blank  — an empty line before a line
// ownblk — own-line block comment
// mlblk  — multi-line block comment on its own lines
func CommentEdits(r *rand.Rand, src []byte, n int, kinds []string, idBase int) []Edit {
	toks, errs := obs.Scan(src)
	if errs > 0 || len(toks) == 0 {
		return nil
	}
	// line start offsets
	var lineStarts []int
	lineStarts = append(lineStarts, 0)
	for i, c := range src {
		if c == '\n' && i+1 < len(src) {
			lineStarts = append(lineStarts, i+1)
		}
	}
	// offsets that are inside a token (raw strings / comments spanning lines) must be avoided
	inside := func(off int) bool {
		for _, t := range toks {
			if t.Off >= off {
				break
			}
			l := len(t.Lit)
			if t.Lit == "" {
				l = len(t.Tok.String())
			}
			if t.Tok == token.SEMICOLON && t.Lit == "\n" {
				l = 0
			}
			if off > t.Off && off < t.Off+l {
				return true
			}
		}
		return false
	}
	var edits []Edit
	for k := 0; k < n; k++ {
		kind := kinds[r.Intn(len(kinds))]
		id := fmt.Sprintf("#%d", idBase+k)
		switch kind {
		case "block":
			t := toks[r.Intn(len(toks))]
			if t.Tok == token.SEMICOLON && t.Lit == "\n" {
				continue
			}
			edits = append(edits, Edit{Off: t.Off, Text: "/*" + id + "*/ ", Kind: kind})
		case "eol":
			// end of a random line: find a newline byte
			ls := lineStarts[r.Intn(len(lineStarts))]
			e := bytes.IndexByte(src[ls:], '\n')
			if e < 0 {
				continue
			}
			off := ls + e
			if inside(off) {
				continue
			}
			// skip if line already ends with a comment
			if bytes.Contains(src[ls:off], []byte("//")) {
				continue
			}
			edits = append(edits, Edit{Off: off, Text: " //" + id, Kind: kind})
		case "hang":
			// an own-line comment at the end of a block / clause body: before a line that starts
			// with case, default or a closing brace, indented like the line above it
			var cands []int
			for li := 1; li < len(lineStarts); li++ {
				ls := lineStarts[li]
				e := bytes.IndexByte(src[ls:], '\n')
				if e < 0 {
					continue
				}
				t := bytes.TrimLeft(src[ls:ls+e], "\t ")
				if bytes.HasPrefix(t, []byte("case ")) || bytes.HasPrefix(t, []byte("default:")) || bytes.HasPrefix(t, []byte("}")) {
					cands = append(cands, li)
				}
			}
			if len(cands) == 0 {
				continue
			}
			li := cands[r.Intn(len(cands))]
			ls := lineStarts[li]
			if inside(ls) {
				continue
			}
			prev := lineStarts[li-1]
			pl := src[prev : ls-1]
			ind := pl[:len(pl)-len(bytes.TrimLeft(pl, "\t"))]
			if len(bytes.TrimSpace(pl)) == 0 {
				continue
			}
			edits = append(edits, Edit{Off: ls, Text: string(ind) + "//" + id + "\n", Kind: kind})
		case "own", "blank", "ownblk", "mlblk":
			ls := lineStarts[r.Intn(len(lineStarts))]
			if inside(ls) {
				continue
			}
			switch kind {
			case "own":
				edits = append(edits, Edit{Off: ls, Text: "//" + id + "\n", Kind: kind})
			case "blank":
				edits = append(edits, Edit{Off: ls, Text: "\n", Kind: kind})
			case "ownblk":
				edits = append(edits, Edit{Off: ls, Text: "/*" + id + "*/\n", Kind: kind})
			case "mlblk":
				edits = append(edits, Edit{Off: ls, Text: "/*" + id + "\n   more\n*/\n", Kind: kind})
			}
		}
	}
	return edits
}

// Canonicalise runs gofmt and requires the result to be a gofmt fixed point.
func Canonicalise(src []byte) ([]byte, bool) {
	a, err := format.Source(src)
	if err != nil {
		return nil, false
	}
	b, err := format.Source(a)
	if err != nil || !bytes.Equal(a, b) {
		return nil, false
	}
	return a, true
}
