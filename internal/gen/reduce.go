package gen

import (
	"go/ast"
	"go/parser"
	"go/token"
)

// ReduceEdits greedily drops edits while fails(materialise(edits)) stays true.
func ReduceEdits(edits []Edit, materialise func([]Edit) ([]byte, bool), fails func([]byte) bool) []Edit {
	cur := append([]Edit(nil), edits...)
	for changed := true; changed; {
		changed = false
		for i := 0; i < len(cur); i++ {
			trial := append(append([]Edit(nil), cur[:i]...), cur[i+1:]...)
			src, ok := materialise(trial)
			if ok && fails(src) {
				cur = trial
				changed = true
				i--
			}
		}
	}
	return cur
}

// ReduceDecls greedily drops top-level declarations (with their doc comments and the lines they
// occupy) while ok(src) (e.g. "still canonical") and fails(src) stay true. At most budget trials.
func ReduceDecls(src []byte, ok func([]byte) bool, fails func([]byte) bool, budget int) []byte {
	cur := src
	for changed := true; changed && budget > 0; {
		changed = false
		fset := token.NewFileSet()
		f, err := parser.ParseFile(fset, "", cur, parser.ParseComments)
		if err != nil {
			return cur
		}
		tf := fset.File(f.Pos())
		// process from the end so offsets stay valid within one sweep
		for i := len(f.Decls) - 1; i >= 0 && budget > 0; i-- {
			d := f.Decls[i]
			start := d.Pos()
			switch x := d.(type) {
			case *ast.GenDecl:
				if x.Doc != nil {
					start = x.Doc.Pos()
				}
			case *ast.FuncDecl:
				if x.Doc != nil {
					start = x.Doc.Pos()
				}
			}
			so := tf.Offset(start)
			eo := tf.Offset(d.End())
			// extend to whole lines
			for so > 0 && cur[so-1] != '\n' {
				so--
			}
			for eo < len(cur) && cur[eo] != '\n' {
				eo++
			}
			if eo < len(cur) {
				eo++
			}
			// swallow one following blank line
			if eo < len(cur) && cur[eo] == '\n' {
				eo++
			}
			trial := append(append([]byte(nil), cur[:so]...), cur[eo:]...)
			budget--
			if ok(trial) && fails(trial) {
				cur = trial
				changed = true
				break // re-parse
			}
		}
	}
	return cur
}
