// Package corpus discovers the real-source corpus (the toolchain's own GOROOT/src, /repo and the
// x/tools copy in the module cache) and offers seeded, directory-stratified sampling.
package corpus

import (
	"bytes"
	"go/format"
	"go/parser"
	"go/token"
	"math/rand"
	"os"
	"os/exec"
	"path/filepath"
	"sort"
	"strings"
	"sync"
)

var (
	once  sync.Once
	files []string
)

func goroot() string {
	if g := os.Getenv("VERIF_GOROOT"); g != "" {
		return g
	}
	out, err := exec.Command("go", "env", "GOROOT").Output()
	if err != nil {
		return "/usr/lib/go-1.23"
	}
	return strings.TrimSpace(string(out))
}

func walk(root string, out *[]string) {
	real, err := filepath.EvalSymlinks(root)
	if err != nil {
		return
	}
	filepath.Walk(real, func(p string, info os.FileInfo, err error) error {
		if err != nil {
			return nil
		}
		if info.IsDir() {
			if info.Name() == ".git" {
				return filepath.SkipDir
			}
			return nil
		}
		if strings.HasSuffix(p, ".go") && info.Size() < 600000 {
			*out = append(*out, p)
		}
		return nil
	})
}

// Files returns every .go file of the corpus, sorted.
func Files() []string {
	once.Do(func() {
		walk(filepath.Join(goroot(), "src"), &files)
		repo := os.Getenv("VERIF_REPO")
		if repo == "" {
			repo = "/repo"
		}
		walk(repo, &files)
		sort.Strings(files)
	})
	return files
}

// Sample returns n files chosen round-robin over shuffled directories (all files if n <= 0 or
// n >= len).
func Sample(r *rand.Rand, n int) []string {
	all := Files()
	if n <= 0 || n >= len(all) {
		return append([]string(nil), all...)
	}
	byDir := map[string][]string{}
	var dirs []string
	for _, f := range all {
		d := filepath.Dir(f)
		if _, ok := byDir[d]; !ok {
			dirs = append(dirs, d)
		}
		byDir[d] = append(byDir[d], f)
	}
	r.Shuffle(len(dirs), func(i, j int) { dirs[i], dirs[j] = dirs[j], dirs[i] })
	for _, d := range dirs {
		fs := byDir[d]
		r.Shuffle(len(fs), func(i, j int) { fs[i], fs[j] = fs[j], fs[i] })
	}
	var out []string
	for round := 0; len(out) < n; round++ {
		progress := false
		for _, d := range dirs {
			if round < len(byDir[d]) {
				out = append(out, byDir[d][round])
				progress = true
				if len(out) == n {
					break
				}
			}
		}
		if !progress {
			break
		}
	}
	return out
}

// Parses reports whether src parses as a Go file without errors.
func Parses(src []byte) bool {
	_, err := parser.ParseFile(token.NewFileSet(), "", src, parser.ParseComments)
	return err == nil
}

// Canonical reports whether src is a gofmt fixed point that parses as a file.
func Canonical(src []byte) bool {
	if !Parses(src) {
		return false
	}
	out, err := format.Source(src)
	return err == nil && bytes.Equal(out, src)
}

// Rel shortens a corpus path for ids and evidence.
func Rel(p string) string {
	for _, pre := range []string{"/usr/share/go-1.23/src/", "/usr/lib/go-1.23/src/"} {
		if strings.HasPrefix(p, pre) {
			return "std/" + p[len(pre):]
		}
	}
	if i := strings.Index(p, "/src/"); i >= 0 && strings.Contains(p[:i], "go") {
		return "std/" + p[i+5:]
	}
	return strings.TrimPrefix(p, "/")
}
