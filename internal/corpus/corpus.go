// Package corpus discovers the real-source corpus (the toolchain's own GOROOT/src, /repo and the
// x/tools copy in the module cache) and offers seeded, directory-stratified sampling.
package corpus

import (
	"bytes"
	"go/format"
	"go/parser"
	"go/token"
	"math/rand"
	"os"
	"os/exec"
	"path/filepath"
	"sort"
	"strings"
	"sync"
)

var (
	once  sync.Once
	files []string
)

func goroot() string {
	if g := os.Getenv("VERIF_GOROOT"); g != "" {
		return g
	}
	out, err := exec.Command("go", "env", "GOROOT").Output()
	if err != nil {
		return "/usr/lib/go-1.23"
	}
	return strings.TrimSpace(string(out))
}

func walk(root string, out *[]string) {
	real, err := filepath.EvalSymlinks(root)
	if err != nil {
		return
	}
	filepath.Walk(real, func(p string, info os.FileInfo, err error) error {
		if err != nil {
			return nil
		}
		if info.IsDir() {
			if info.Name() == ".git" {
				return filepath.SkipDir
			}
			return nil
		}
		if strings.HasSuffix(p, ".go") && info.Size() < 600000 {
			*out = append(*out, p)
		}
		return nil
	})
}

// Files returns every .go file of the corpus, sorted.
func Files() []string {
	once.Do(func() {
		walk(filepath.Join(goroot(), "src"), &files)
		repo := os.Getenv("VERIF_REPO")
		if repo == "" {
			repo = "/repo"
		}
		walk(repo, &files)
		sort.Strings(files)
	})
	return files
}

// Sample returns n files chosen round-robin over shuffled directories (all files if n <= 0 or
// n >= len).
func Sample(r *rand.Rand, n int) []string {
	all := Files()
	if n <= 0 || n >= len(all) {
		return append([]string(nil), all...)
	}
	byDir := map[string][]string{}
	var dirs []string
	for _, f := range all {
		d := filepath.Dir(f)
		if _, ok := byDir[d]; !ok {
			dirs = append(dirs, d)
		}
		byDir[d] = append(byDir[d], f)
	}
	r.Shuffle(len(dirs), func(i, j int) { dirs[i], dirs[j] = dirs[j], dirs[i] })
	for _, d := range dirs {
		fs := byDir[d]
		r.Shuffle(len(fs), func(i, j int) { fs[i], fs[j] = fs[j], fs[i] })
	}
	var out []string
	for round := 0; len(out) < n; round++ {
		progress := false
		for _, d := range dirs {
			if round < len(byDir[d]) {
				out = append(out, byDir[d][round])
				progress = true
				if len(out) == n {
					break
				}
			}
		}
		if !progress {
			break
		}
	}
	return out
}

// Parses reports whether src parses as a Go file without errors.
func Parses(src []byte) bool {
	_, err := parser.ParseFile(token.NewFileSet(), "", src, parser.ParseComments)
	return err == nil
}

// Canonical reports whether src is a gofmt fixed point that parses as a file.
func Canonical(src []byte) bool {
	if !Parses(src) {
		return false
	}
	out, err := format.Source(src)
	return err == nil && bytes.Equal(out, src)
}

// Rel shortens a corpus path for ids and evidence.
func Rel(p string) string {
	for _, pre := range []string{"/usr/share/go-1.23/src/", "/usr/lib/go-1.23/src/"} {
		if strings.HasPrefix(p, pre) {
			return "std/" + p[len(pre):]
		}
	}
	if i := strings.Index(p, "/src/"); i >= 0 && strings.Contains(p[:i], "go") {
		return "std/" + p[i+5:]
	}
	return strings.TrimPrefix(p, "/")
}

var (
	nameMu    sync.Mutex
	nameCache = map[string]string{}
)

// StdPkgName returns the package name declared by the sources of a standard-library import path
// (read from the package clauses under GOROOT/src, independent of dst), or "" if unknown.
func StdPkgName(path string) string {
	nameMu.Lock()
	defer nameMu.Unlock()
	if n, ok := nameCache[path]; ok {
		return n
	}
	name := ""
	root, _ := filepath.EvalSymlinks(filepath.Join(goroot(), "src"))
	for _, dir := range []string{filepath.Join(root, path), filepath.Join(root, "vendor", path), filepath.Join(root, "cmd", "vendor", path)} {
		ents, err := os.ReadDir(dir)
		if err != nil {
			continue
		}
		for _, e := range ents {
			if e.IsDir() || !strings.HasSuffix(e.Name(), ".go") || strings.HasSuffix(e.Name(), "_test.go") {
				continue
			}
			f, err := parser.ParseFile(token.NewFileSet(), filepath.Join(dir, e.Name()), nil, parser.PackageClauseOnly)
			if err != nil || f.Name == nil || f.Name.Name == "main" && name != "" {
				continue
			}
			// ignore files excluded by "//go:build ignore"
			b, _ := os.ReadFile(filepath.Join(dir, e.Name()))
			if bytes.Contains(b, []byte("//go:build ignore")) {
				continue
			}
			name = f.Name.Name
			break
		}
		if name != "" {
			break
		}
	}
	nameCache[path] = name
	return name
}

// ImportNames returns path -> declared package name for every import of src whose name could be
// established (std packages and "C" excluded); ok is false if some import is unknown.
func ImportNames(src []byte) (map[string]string, bool) {
	f, err := parser.ParseFile(token.NewFileSet(), "", src, parser.ImportsOnly)
	if err != nil {
		return nil, false
	}
	m := map[string]string{}
	ok := true
	for _, im := range f.Imports {
		p := strings.Trim(im.Path.Value, "\"`")
		if p == "C" || p == "unsafe" {
			if p == "unsafe" {
				m[p] = "unsafe"
			}
			continue
		}
		n := StdPkgName(p)
		if n == "" {
			ok = false
			continue
		}
		m[p] = n
	}
	return m, ok
}
