// Package obs holds the dst-independent observers: scanner token/comment streams, line skeletons.
package obs

import (
	"go/scanner"
	"go/token"
	"strings"
)

// Tok is one scanned item.
type Tok struct {
	Tok  token.Token
	Lit  string
	Off  int // byte offset
	Line int
	Col  int
}

func (t Tok) String() string {
	if t.Lit != "" {
		return t.Tok.String() + ":" + t.Lit
	}
	return t.Tok.String()
}

// Scan returns all tokens (comments included, in order) of src. Automatic and explicit semicolons
// are kept with Lit "\n" or ";" so callers can filter. errs counts scanner errors.
func Scan(src []byte) (toks []Tok, errs int) {
	fset := token.NewFileSet()
	f := fset.AddFile("", fset.Base(), len(src))
	var s scanner.Scanner
	s.Init(f, src, func(pos token.Position, msg string) { errs++ }, scanner.ScanComments)
	for {
		pos, tok, lit := s.Scan()
		if tok == token.EOF {
			break
		}
		p := f.Position(pos)
		toks = append(toks, Tok{Tok: tok, Lit: lit, Off: f.Offset(pos), Line: p.Line, Col: p.Column})
	}
	return
}

// Syntax returns the token stream used for "same tokens" comparisons: comments and semicolons
// dropped, a comma directly before a closing delimiter dropped (Go's optional trailing comma, which
// go/printer inserts or removes on its own depending on line breaks), literal text kept.
func Syntax(toks []Tok) []string { return syntax(toks, false) }

// SyntaxStrict is Syntax with trailing commas kept: gofmt never adds or removes a line break, so
// for one and the same source text the trailing commas it emits are determined by the source too.
func SyntaxStrict(toks []Tok) []string { return syntax(toks, true) }

func syntax(toks []Tok, strict bool) []string {
	var out []string
	var kinds []token.Token
	for _, t := range toks {
		switch t.Tok {
		case token.COMMENT, token.SEMICOLON:
			continue
		}
		if !strict && (t.Tok == token.RPAREN || t.Tok == token.RBRACK || t.Tok == token.RBRACE) {
			if n := len(kinds); n > 0 && kinds[n-1] == token.COMMA {
				out = out[:n-1]
				kinds = kinds[:n-1]
			}
		}
		lit := t.Lit
		if t.Tok == token.STRING && strings.HasPrefix(lit, "`") {
			lit = strings.ReplaceAll(lit, "\r", "")
		}
		out = append(out, t.Tok.String()+"\x00"+lit)
		kinds = append(kinds, t.Tok)
	}
	return out
}

// Comments returns the comment texts in order.
func Comments(toks []Tok) []string {
	var out []string
	for _, t := range toks {
		if t.Tok == token.COMMENT {
			out = append(out, t.Lit)
		}
	}
	return out
}

// FirstDiff returns the first index at which a and b differ (or -1).
func FirstDiff(a, b []string) int {
	n := len(a)
	if len(b) < n {
		n = len(b)
	}
	for i := 0; i < n; i++ {
		if a[i] != b[i] {
			return i
		}
	}
	if len(a) != len(b) {
		return n
	}
	return -1
}

// DiffContext renders a short description of the first difference of two byte strings.
func DiffContext(got, want []byte) string {
	n := len(got)
	if len(want) < n {
		n = len(want)
	}
	i := 0
	for i < n && got[i] == want[i] {
		i++
	}
	if i == n && len(got) == len(want) {
		return "equal"
	}
	lo := i - 120
	if lo < 0 {
		lo = 0
	}
	hi := func(b []byte) int {
		h := i + 120
		if h > len(b) {
			h = len(b)
		}
		return h
	}
	line := 1
	for _, c := range want[:i] {
		if c == '\n' {
			line++
		}
	}
	return "first difference at byte " + itoa(i) + " (line " + itoa(line) + ")\n--- want\n" + string(want[lo:hi(want)]) + "\n--- got\n" + string(got[lo:hi(got)])
}

func itoa(i int) string {
	if i == 0 {
		return "0"
	}
	neg := i < 0
	if neg {
		i = -i
	}
	var b []byte
	for i > 0 {
		b = append([]byte{byte('0' + i%10)}, b...)
		i /= 10
	}
	if neg {
		b = append([]byte{'-'}, b...)
	}
	return string(b)
}

// StripSpace removes all whitespace.
func StripSpace(s string) string {
	return strings.Map(func(r rune) rune {
		switch r {
		case ' ', '\t', '\n', '\r':
			return -1
		}
		return r
	}, s)
}
