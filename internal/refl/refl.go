// Package refl is the reflection walker over dst / ast values used by several monitors. It does
// not use any of dst's generated code: child lists, deep equality and alias detection are all
// derived from the struct definitions.
package refl

import (
	"fmt"
	"go/ast"
	"reflect"
	"sort"

	"github.com/dave/dst"
)

var (
	dstNodeType = reflect.TypeOf((*dst.Node)(nil)).Elem()
	astNodeType = reflect.TypeOf((*ast.Node)(nil)).Elem()
)

// TypeName returns the bare struct name of a node.
func TypeName(n interface{}) string {
	if n == nil {
		return "nil"
	}
	t := reflect.TypeOf(n)
	for t.Kind() == reflect.Ptr {
		t = t.Elem()
	}
	return t.Name()
}

// IsNil reports whether an interface holds nil or a typed nil pointer.
func IsNil(n interface{}) bool {
	if n == nil {
		return true
	}
	v := reflect.ValueOf(n)
	return v.Kind() == reflect.Ptr && v.IsNil()
}

// Child is one syntactic child slot of a node.
type Child struct {
	Field string
	Index int // -1 for a non-list field
	Node  dst.Node
}

// skipDst lists fields that are not syntactic children of a dst node.
func skipDst(typ, field string) bool {
	switch field {
	case "Decs", "Obj", "Scope":
		return true
	}
	if typ == "File" && (field == "Imports" || field == "Unresolved") {
		return true
	}
	if typ == "Package" && field == "Imports" {
		return true
	}
	return false
}

// DstChildren lists the non-nil syntactic children of n in struct-field (= source) order.
// Package.Files is listed in sorted key order.
func DstChildren(n dst.Node) []Child {
	var out []Child
	if IsNil(n) {
		return nil
	}
	v := reflect.ValueOf(n).Elem()
	t := v.Type()
	for i := 0; i < t.NumField(); i++ {
		f := t.Field(i)
		if skipDst(t.Name(), f.Name) {
			continue
		}
		fv := v.Field(i)
		switch {
		case f.Type.Implements(dstNodeType):
			if fv.Kind() == reflect.Interface || fv.Kind() == reflect.Ptr {
				if fv.IsNil() {
					continue
				}
			}
			c := fv.Interface().(dst.Node)
			if IsNil(c) {
				continue
			}
			out = append(out, Child{f.Name, -1, c})
		case f.Type.Kind() == reflect.Slice && f.Type.Elem().Implements(dstNodeType):
			for j := 0; j < fv.Len(); j++ {
				e := fv.Index(j)
				if (e.Kind() == reflect.Interface || e.Kind() == reflect.Ptr) && e.IsNil() {
					continue
				}
				c := e.Interface().(dst.Node)
				if IsNil(c) {
					continue
				}
				out = append(out, Child{f.Name, j, c})
			}
		case f.Type.Kind() == reflect.Map && f.Type.Elem().Implements(dstNodeType):
			keys := fv.MapKeys()
			sort.Slice(keys, func(a, b int) bool { return keys[a].String() < keys[b].String() })
			for j, k := range keys {
				e := fv.MapIndex(k)
				if e.IsNil() {
					continue
				}
				out = append(out, Child{f.Name, j, e.Interface().(dst.Node)})
			}
		}
	}
	return out
}

// DstPreorder returns the nodes of the tree in reflection-derived pre-order.
func DstPreorder(n dst.Node) []dst.Node {
	var out []dst.Node
	var rec func(dst.Node)
	rec = func(x dst.Node) {
		out = append(out, x)
		for _, c := range DstChildren(x) {
			rec(c.Node)
		}
	}
	if !IsNil(n) {
		rec(n)
	}
	return out
}

// AstChildren lists the non-nil syntactic children of an ast node in source order, comments
// (Doc / Comment / File.Comments) excluded. Field order of go/ast structs is source order except
// where noted by go/ast's Walk; callers that need exact ast traversal order use ast.Inspect.
func AstChildren(n ast.Node) []ast.Node {
	var out []ast.Node
	if IsNil(n) {
		return nil
	}
	v := reflect.ValueOf(n).Elem()
	t := v.Type()
	for i := 0; i < t.NumField(); i++ {
		f := t.Field(i)
		switch f.Name {
		case "Doc", "Comment", "Comments", "Obj", "Scope", "Unresolved":
			continue
		}
		if t.Name() == "File" && f.Name == "Imports" {
			continue
		}
		if t.Name() == "Package" && f.Name == "Imports" {
			continue
		}
		fv := v.Field(i)
		switch {
		case f.Type.Implements(astNodeType):
			if fv.IsNil() {
				continue
			}
			c := fv.Interface().(ast.Node)
			if IsNil(c) {
				continue
			}
			out = append(out, c)
		case f.Type.Kind() == reflect.Slice && f.Type.Elem().Implements(astNodeType):
			for j := 0; j < fv.Len(); j++ {
				e := fv.Index(j)
				if e.IsNil() {
					continue
				}
				c := e.Interface().(ast.Node)
				if IsNil(c) {
					continue
				}
				out = append(out, c)
			}
		case f.Type.Kind() == reflect.Map && f.Type.Elem().Implements(astNodeType):
			keys := fv.MapKeys()
			sort.Slice(keys, func(a, b int) bool { return keys[a].String() < keys[b].String() })
			for _, k := range keys {
				e := fv.MapIndex(k)
				if !e.IsNil() {
					out = append(out, e.Interface().(ast.Node))
				}
			}
		}
	}
	return out
}

// ---- deep comparison of dst trees ----------------------------------------------------------

// DeepEqualDst compares two dst values structurally. Obj and Scope fields are ignored (callers
// assert what they need about them separately). It returns "" or a description of the first
// difference.
func DeepEqualDst(a, b interface{}) string {
	return deq(reflect.ValueOf(a), reflect.ValueOf(b), "", map[[2]uintptr]bool{})
}

func deq(a, b reflect.Value, path string, seen map[[2]uintptr]bool) string {
	if !a.IsValid() || !b.IsValid() {
		if a.IsValid() != b.IsValid() {
			return path + ": one side invalid"
		}
		return ""
	}
	if a.Type() != b.Type() {
		return fmt.Sprintf("%s: type %s vs %s", path, a.Type(), b.Type())
	}
	switch a.Kind() {
	case reflect.Ptr:
		if a.IsNil() || b.IsNil() {
			if a.IsNil() != b.IsNil() {
				return path + ": nil vs non-nil"
			}
			return ""
		}
		k := [2]uintptr{a.Pointer(), b.Pointer()}
		if seen[k] {
			return ""
		}
		seen[k] = true
		return deq(a.Elem(), b.Elem(), path, seen)
	case reflect.Interface:
		if a.IsNil() || b.IsNil() {
			if a.IsNil() != b.IsNil() {
				return path + ": nil vs non-nil interface"
			}
			return ""
		}
		return deq(a.Elem(), b.Elem(), path, seen)
	case reflect.Struct:
		for i := 0; i < a.NumField(); i++ {
			fn := a.Type().Field(i).Name
			if fn == "Obj" || fn == "Scope" || (fn == "Imports" && a.Type().Name() == "Package") {
				continue // links into the object-resolution graph
			}
			if d := deq(a.Field(i), b.Field(i), path+"."+fn, seen); d != "" {
				return d
			}
		}
		return ""
	case reflect.Slice:
		if a.Len() != b.Len() {
			return fmt.Sprintf("%s: len %d vs %d", path, a.Len(), b.Len())
		}
		for i := 0; i < a.Len(); i++ {
			if d := deq(a.Index(i), b.Index(i), fmt.Sprintf("%s[%d]", path, i), seen); d != "" {
				return d
			}
		}
		return ""
	case reflect.Map:
		if a.Len() != b.Len() {
			return fmt.Sprintf("%s: map len %d vs %d", path, a.Len(), b.Len())
		}
		for _, k := range a.MapKeys() {
			bv := b.MapIndex(k)
			if !bv.IsValid() {
				return fmt.Sprintf("%s: key %v missing", path, k)
			}
			if d := deq(a.MapIndex(k), bv, fmt.Sprintf("%s[%v]", path, k), seen); d != "" {
				return d
			}
		}
		return ""
	default:
		if a.CanInterface() && b.CanInterface() {
			if !reflect.DeepEqual(a.Interface(), b.Interface()) {
				return fmt.Sprintf("%s: %v vs %v", path, a.Interface(), b.Interface())
			}
			return ""
		}
		if fmt.Sprint(a) != fmt.Sprint(b) {
			return fmt.Sprintf("%s: %v vs %v", path, a, b)
		}
		return ""
	}
}

// Storage is the set of mutable storage reachable from a value: pointers, map headers and
// non-empty slice backing arrays (by data pointer).
type Storage struct {
	Ptrs   map[uintptr]string
	Slices map[uintptr]string
	Maps   map[uintptr]string
}

// Reach collects the storage reachable from v. Obj/Scope links are followed only when follow is
// true.
func Reach(v interface{}, followObj bool) *Storage {
	s := &Storage{Ptrs: map[uintptr]string{}, Slices: map[uintptr]string{}, Maps: map[uintptr]string{}}
	reach(reflect.ValueOf(v), "", s, followObj)
	return s
}

func reach(v reflect.Value, path string, s *Storage, followObj bool) {
	if !v.IsValid() {
		return
	}
	switch v.Kind() {
	case reflect.Ptr:
		if v.IsNil() {
			return
		}
		p := v.Pointer()
		if _, ok := s.Ptrs[p]; ok {
			return
		}
		s.Ptrs[p] = path + ":" + v.Type().String()
		reach(v.Elem(), path, s, followObj)
	case reflect.Interface:
		if !v.IsNil() {
			reach(v.Elem(), path, s, followObj)
		}
	case reflect.Struct:
		for i := 0; i < v.NumField(); i++ {
			fn := v.Type().Field(i).Name
			if !followObj && (fn == "Obj" || fn == "Scope") {
				continue
			}
			reach(v.Field(i), path+"."+fn, s, followObj)
		}
	case reflect.Slice:
		if v.Len() == 0 && v.Cap() == 0 {
			return
		}
		if v.Cap() > 0 {
			s.Slices[v.Pointer()] = path
		}
		for i := 0; i < v.Len(); i++ {
			reach(v.Index(i), fmt.Sprintf("%s[%d]", path, i), s, followObj)
		}
	case reflect.Map:
		if v.IsNil() {
			return
		}
		s.Maps[v.Pointer()] = path
		for _, k := range v.MapKeys() {
			reach(v.MapIndex(k), fmt.Sprintf("%s[%v]", path, k), s, followObj)
		}
	}
}

// Overlap returns descriptions of storage shared by a and b.
func Overlap(a, b *Storage) []string {
	var out []string
	for p, d := range a.Ptrs {
		if d2, ok := b.Ptrs[p]; ok {
			out = append(out, "pointer "+d+" == "+d2)
		}
	}
	for p, d := range a.Slices {
		if d2, ok := b.Slices[p]; ok {
			out = append(out, "slice backing array "+d+" == "+d2)
		}
	}
	for p, d := range a.Maps {
		if d2, ok := b.Maps[p]; ok {
			out = append(out, "map "+d+" == "+d2)
		}
	}
	sort.Strings(out)
	return out
}

// DeepCopy makes an independent structural copy of a value (pointer identity inside the value is
// preserved through a memo). It is the monitor's own snapshot facility and uses no dst code.
func DeepCopy(v interface{}) interface{} {
	if v == nil {
		return nil
	}
	return dcopy(reflect.ValueOf(v), map[uintptr]reflect.Value{}).Interface()
}

func dcopy(v reflect.Value, memo map[uintptr]reflect.Value) reflect.Value {
	switch v.Kind() {
	case reflect.Ptr:
		if v.IsNil() {
			return reflect.Zero(v.Type())
		}
		if c, ok := memo[v.Pointer()]; ok {
			return c
		}
		n := reflect.New(v.Type().Elem())
		memo[v.Pointer()] = n
		n.Elem().Set(dcopy(v.Elem(), memo))
		return n
	case reflect.Interface:
		if v.IsNil() {
			return reflect.Zero(v.Type())
		}
		c := dcopy(v.Elem(), memo)
		n := reflect.New(v.Type()).Elem()
		n.Set(c)
		return n
	case reflect.Struct:
		n := reflect.New(v.Type()).Elem()
		for i := 0; i < v.NumField(); i++ {
			if n.Field(i).CanSet() {
				n.Field(i).Set(dcopy(v.Field(i), memo))
			}
		}
		return n
	case reflect.Slice:
		if v.IsNil() {
			return reflect.Zero(v.Type())
		}
		n := reflect.MakeSlice(v.Type(), v.Len(), v.Len())
		for i := 0; i < v.Len(); i++ {
			n.Index(i).Set(dcopy(v.Index(i), memo))
		}
		return n
	case reflect.Map:
		if v.IsNil() {
			return reflect.Zero(v.Type())
		}
		n := reflect.MakeMap(v.Type())
		for _, k := range v.MapKeys() {
			n.SetMapIndex(k, dcopy(v.MapIndex(k), memo))
		}
		return n
	default:
		return v
	}
}

// Scramble overwrites every mutable field reachable from v in place: strings are changed, slices
// get element 0 overwritten (after recursing) and one element appended, bools flipped, ints
// incremented. Obj/Scope are not followed. Used to show that two trees share no storage.
func Scramble(v interface{}) int {
	n := 0
	scramble(reflect.ValueOf(v), map[uintptr]bool{}, &n)
	return n
}

func scramble(v reflect.Value, seen map[uintptr]bool, n *int) {
	switch v.Kind() {
	case reflect.Ptr:
		if v.IsNil() || seen[v.Pointer()] {
			return
		}
		seen[v.Pointer()] = true
		scramble(v.Elem(), seen, n)
	case reflect.Interface:
		if !v.IsNil() {
			// the dynamic value of an interface is not addressable; pointers inside are followed
			e := v.Elem()
			if e.Kind() == reflect.Ptr {
				scramble(e, seen, n)
			}
		}
	case reflect.Struct:
		for i := 0; i < v.NumField(); i++ {
			fn := v.Type().Field(i).Name
			if fn == "Obj" || fn == "Scope" {
				continue
			}
			scramble(v.Field(i), seen, n)
		}
	case reflect.Slice:
		for i := 0; i < v.Len(); i++ {
			scramble(v.Index(i), seen, n)
		}
		if v.Len() > 0 && v.Index(0).Kind() == reflect.String && v.Index(0).CanSet() {
			v.Index(0).SetString("/*scrambled-in-place*/")
			*n++
		}
		if v.CanSet() && v.Type().Elem().Kind() == reflect.String {
			// append within capacity if there is any: a shared backing array would show it
			v.Set(reflect.Append(v, reflect.ValueOf("/*scrambled-append*/")))
			*n++
		}
	case reflect.Map:
		// node maps (Package.Files): delete one entry
		if v.Len() > 0 && !v.IsNil() {
			k := v.MapKeys()[0]
			scramble(v.MapIndex(k), seen, n)
			v.SetMapIndex(k, reflect.Value{})
			*n++
		}
	case reflect.String:
		if v.CanSet() {
			v.SetString(v.String() + "~")
			*n++
		}
	case reflect.Bool:
		if v.CanSet() {
			v.SetBool(!v.Bool())
			*n++
		}
	case reflect.Int, reflect.Int64, reflect.Int32:
		if v.CanSet() {
			v.SetInt(v.Int() + 1)
			*n++
		}
	}
}

// NonZeroFields records "Type.Field" for every non-zero field of every dst node struct (and its
// Decs struct) reachable from n.
func NonZeroFields(n dst.Node, into map[string]bool) {
	for _, x := range DstPreorder(n) {
		v := reflect.ValueOf(x).Elem()
		t := v.Type()
		for i := 0; i < t.NumField(); i++ {
			f := t.Field(i)
			if f.Name == "Decs" {
				d := v.Field(i)
				for j := 0; j < d.NumField(); j++ {
					df := d.Type().Field(j)
					if df.Name == "NodeDecs" {
						nd := d.Field(j)
						for k := 0; k < nd.NumField(); k++ {
							if !nd.Field(k).IsZero() {
								into[t.Name()+".Decs."+nd.Type().Field(k).Name] = true
							}
						}
						continue
					}
					if !d.Field(j).IsZero() {
						into[t.Name()+".Decs."+df.Name] = true
					}
				}
				continue
			}
			if !v.Field(i).IsZero() {
				into[t.Name()+"."+f.Name] = true
			}
		}
	}
}

// AllFields lists every "Type.Field" (Decs expanded) of the given node types.
func AllFields(types []reflect.Type) []string {
	var out []string
	for _, pt := range types {
		t := pt.Elem()
		for i := 0; i < t.NumField(); i++ {
			f := t.Field(i)
			if f.Name == "Decs" {
				for j := 0; j < f.Type.NumField(); j++ {
					df := f.Type.Field(j)
					if df.Name == "NodeDecs" {
						for k := 0; k < df.Type.NumField(); k++ {
							out = append(out, t.Name()+".Decs."+df.Type.Field(k).Name)
						}
						continue
					}
					out = append(out, t.Name()+".Decs."+df.Name)
				}
				continue
			}
			out = append(out, t.Name()+"."+f.Name)
		}
	}
	sort.Strings(out)
	return out
}
