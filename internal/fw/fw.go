// Package fw is the small runtime-monitoring framework shared by all property checks: case
// journalling, panic capture, evidence counters, violation records, known-finding matching.
package fw

import (
	"crypto/sha256"
	"encoding/hex"
	"encoding/json"
	"fmt"
	"math/rand"
	"os"
	"path/filepath"
	"regexp"
	"runtime/debug"
	"sort"
	"strings"
	"sync"
)

// Violation is one refuting observation.
type Violation struct {
	Rule      string `json:"rule"`      // monitor rule that fired
	Signature string `json:"signature"` // root-cause signature computed from the witness (used for known-finding matching)
	CaseID    string `json:"case_id"`
	Detail    string `json:"detail"`
	Input     string `json:"input,omitempty"`
}

// Result is what one worker hands back to the driver.
type Result struct {
	Evaluations int64               `json:"evaluations"`
	Distinct    []string            `json:"distinct"`
	Counters    map[string]int64    `json:"counters"`
	Sets        map[string][]string `json:"sets"`
	Samples     []json.RawMessage   `json:"samples"`
	Violations  []Violation         `json:"violations"`
	Died        string              `json:"died,omitempty"`
}

// Ctx is handed to a property check.
type Ctx struct {
	Prop    string
	Tier    string
	Seed    int64
	Shard   int
	NShards int
	Only    string // when set, only the case with this id is executed (replay)
	WorkDir string // scratch directory private to this worker (removed by the driver)

	mu        sync.Mutex
	evals     int64
	distinct  map[string]struct{}
	counters  map[string]int64
	sets      map[string]map[string]struct{}
	samples   []json.RawMessage
	viols     []Violation
	journal   *os.File
	curCase   string
	after     string // resume: skip every case up to and including this id
	firstCase string
}

func NewCtx(prop, tier string, seed int64, shard, nshards int, journalPath string) *Ctx {
	c := &Ctx{Prop: prop, Tier: tier, Seed: seed, Shard: shard, NShards: nshards,
		distinct: map[string]struct{}{}, counters: map[string]int64{}, sets: map[string]map[string]struct{}{}}
	c.after = os.Getenv("VCHECK_AFTER")
	if journalPath != "" {
		f, err := os.OpenFile(journalPath, os.O_CREATE|os.O_WRONLY|os.O_TRUNC, 0644)
		if err == nil {
			c.journal = f
		}
	}
	return c
}

func (c *Ctx) Quick() bool { return c.Tier != "thorough" }

// Pick returns q in the quick tier, t in the thorough tier.
func (c *Ctx) Pick(q, t int) int {
	if c.Quick() {
		return q
	}
	return t
}

// Rand returns a PRNG determined by the seed and a label (same in every shard).
func (c *Ctx) Rand(label string) *rand.Rand {
	h := sha256.Sum256([]byte(fmt.Sprintf("%d/%s/%s", c.Seed, c.Prop, label)))
	var s int64
	for i := 0; i < 8; i++ {
		s = s<<8 | int64(h[i])
	}
	return rand.New(rand.NewSource(s))
}

// Mine reports whether global case index i belongs to this shard.
func (c *Ctx) Mine(i int) bool {
	if c.NShards <= 1 {
		return true
	}
	return i%c.NShards == c.Shard
}

var panicLoc = regexp.MustCompile(`github\.com/dave/dst[^\s(]*\.[A-Za-z0-9_.()*]+`)
var argList = regexp.MustCompile(`\((0x[0-9a-f?]+|\.\.\.|[ ,{}]|0x\?)*\)$`)
var hexNum = regexp.MustCompile(`0x[0-9a-f]+`)
var ptrNum = regexp.MustCompile(`\(\*?[a-z.A-Z]+\)\(0x[0-9a-f]+\)`)

// PanicSignature normalises a recovered panic into "message @ innermost dst function".
func PanicSignature(r interface{}, stack []byte) string {
	msg := fmt.Sprint(r)
	msg = hexNum.ReplaceAllString(msg, "0x?")
	if len(msg) > 80 {
		msg = msg[:80]
	}
	// normalise messages that embed node dumps
	if strings.HasPrefix(msg, "duplicate node:") {
		msg = "duplicate node"
	}
	if strings.HasPrefix(msg, "no decoration found for") {
		msg = "no decoration found"
	}
	fn := ""
	for _, line := range strings.Split(string(stack), "\n") {
		if strings.HasPrefix(line, "\t") {
			continue
		}
		if m := panicLoc.FindString(line); m != "" {
			fn = m
			break
		}
	}
	fn = strings.TrimPrefix(fn, "github.com/dave/dst")
	fn = argList.ReplaceAllString(fn, "")
	// an argument list cut short by the location pattern ("imports(0xc000123, 0x0)" -> "imports(0xc000123")
	for _, open := range []string{"(0x", "({", "(...", "(0,", "(?"} {
		if i := strings.Index(fn, open); i >= 0 {
			fn = fn[:i]
		}
	}
	return "panic:" + msg + " @ " + fn
}

// Case runs fn as one monitored case. The case id is journalled before execution; a panic that
// escapes fn is recorded as a violation of rule "panic" (properties for which a panic is the
// expected, monitored outcome recover it themselves). Returns false if the case was skipped.
func (c *Ctx) Case(id string, fn func()) bool {
	if c.Only != "" && c.Only != id {
		return false
	}
	if c.after != "" {
		if c.after == id {
			c.after = ""
		}
		return false
	}
	c.mu.Lock()
	c.curCase = id
	if c.firstCase == "" {
		c.firstCase = id
	}
	if c.journal != nil {
		fmt.Fprintln(c.journal, id)
	}
	c.mu.Unlock()
	func() {
		defer func() {
			if r := recover(); r != nil {
				st := debug.Stack()
				c.Violate("panic", PanicSignature(r, st), fmt.Sprintf("%v\n%s", r, trimStack(st)), "")
			}
		}()
		fn()
	}()
	c.mu.Lock()
	c.evals++
	c.mu.Unlock()
	return true
}

func trimStack(st []byte) string {
	s := string(st)
	if len(s) > 3000 {
		s = s[:3000]
	}
	return s
}

// Try runs fn and returns the recovered panic signature ("" if none).
func Try(fn func()) (sig string, detail string) {
	defer func() {
		if r := recover(); r != nil {
			st := debug.Stack()
			sig = PanicSignature(r, st)
			detail = fmt.Sprintf("%v\n%s", r, trimStack(st))
		}
	}()
	fn()
	return "", ""
}

func (c *Ctx) Violate(rule, signature, detail, input string) {
	c.mu.Lock()
	defer c.mu.Unlock()
	if len(detail) > 6000 {
		detail = detail[:6000] + "…"
	}
	if len(input) > 200000 {
		input = input[:200000]
	}
	c.counters["violations_raw"]++
	// keep at most 40 per signature per worker, always count
	n := 0
	for _, v := range c.viols {
		if v.Signature == signature {
			n++
		}
	}
	c.counters["sig:"+signature]++
	if n >= 3 {
		return
	}
	c.viols = append(c.viols, Violation{Rule: rule, Signature: signature, CaseID: c.curCase, Detail: detail, Input: input})
}

func (c *Ctx) Count(key string, n int64) {
	c.mu.Lock()
	c.counters[key] += n
	c.mu.Unlock()
}

func (c *Ctx) Max(key string, n int64) {
	c.mu.Lock()
	if c.counters["max:"+key] < n {
		c.counters["max:"+key] = n
	}
	c.mu.Unlock()
}

func (c *Ctx) Observe(set, val string) {
	c.mu.Lock()
	m := c.sets[set]
	if m == nil {
		m = map[string]struct{}{}
		c.sets[set] = m
	}
	m[val] = struct{}{}
	c.mu.Unlock()
}

// Nontrivial records a distinct, non-trivial case by content hash.
func (c *Ctx) Nontrivial(parts ...string) {
	h := sha256.New()
	for _, p := range parts {
		h.Write([]byte(p))
		h.Write([]byte{0})
	}
	s := hex.EncodeToString(h.Sum(nil)[:8])
	c.mu.Lock()
	c.distinct[s] = struct{}{}
	c.mu.Unlock()
}

// Sample stores an example case (first few per worker are kept).
func (c *Ctx) Sample(v interface{}) {
	c.mu.Lock()
	defer c.mu.Unlock()
	if len(c.samples) >= 3 {
		return
	}
	b, err := json.Marshal(v)
	if err == nil {
		if len(b) > 4000 {
			b, _ = json.Marshal(string(b[:4000]) + "…")
		}
		c.samples = append(c.samples, b)
	}
}

func (c *Ctx) Result() *Result {
	c.mu.Lock()
	defer c.mu.Unlock()
	r := &Result{Evaluations: c.evals, Counters: map[string]int64{}, Sets: map[string][]string{}}
	for k, v := range c.counters { // copies: the result is marshalled outside the lock
		r.Counters[k] = v
	}
	r.Samples = append(r.Samples, c.samples...)
	if len(r.Samples) == 0 && c.firstCase != "" {
		// every run shows at least one of the cases it executed
		b, _ := json.Marshal(map[string]string{"case": c.firstCase})
		r.Samples = append(r.Samples, b)
	}
	r.Violations = append(r.Violations, c.viols...)
	for k := range c.distinct {
		r.Distinct = append(r.Distinct, k)
	}
	sort.Strings(r.Distinct)
	for k, m := range c.sets {
		for v := range m {
			r.Sets[k] = append(r.Sets[k], v)
		}
		sort.Strings(r.Sets[k])
	}
	return r
}

// Check is a registered property check.
type Check struct {
	ID    string
	Level string // exploration | fault_enumeration
	Rule  string // how cases are generated; what is non-trivial
	Floor int64  // minimum number of evaluations below which the run is inconclusive (quick tier)
	Run   func(c *Ctx)
	// Finish is called in the driver after merging (optional) to add coverage keys / assumptions.
	Assumptions []string
	// Serial makes the driver use one worker (the check parallelises internally).
	Serial bool
	// Race runs the worker from the -race build (bin/vcheck.race) and turns every race-detector
	// report into a violation.
	Race bool
	// Required lists set keys whose merged size must reach the given minimum, else inconclusive.
	Required map[string]int
}

var registry = map[string]*Check{}

func Register(ch *Check) { registry[ch.ID] = ch }
func Get(id string) *Check {
	return registry[id]
}
func IDs() []string {
	var ids []string
	for k := range registry {
		ids = append(ids, k)
	}
	sort.Strings(ids)
	return ids
}

// Finding is an entry of known_findings.json.
type Finding struct {
	Property    string `json:"property"`
	Signature   string `json:"signature"`
	Status      string `json:"status"` // known | fixed
	Commit      string `json:"commit,omitempty"`
	Description string `json:"description"`
	Sample      string `json:"sample,omitempty"`
}

func LoadFindings(path string) ([]Finding, error) {
	b, err := os.ReadFile(path)
	if err != nil {
		if os.IsNotExist(err) {
			return nil, nil
		}
		return nil, err
	}
	var fs []Finding
	if err := json.Unmarshal(b, &fs); err != nil {
		return nil, err
	}
	return fs, nil
}

func Hash(s string) string {
	h := sha256.Sum256([]byte(s))
	return hex.EncodeToString(h[:8])
}

func WriteJSON(path string, v interface{}) error {
	os.MkdirAll(filepath.Dir(path), 0755)
	b, err := json.MarshalIndent(v, "", " ")
	if err != nil {
		return err
	}
	return os.WriteFile(path, b, 0644)
}
