#!/bin/sh
# ./run.sh <Cxx> <quick|thorough>      run one check against /repo's current working tree (hooks on)
# ./run.sh <Cxx> --replay <path>       re-run the case recorded in a replay file
# VERIF_REPO=<dir> (optional) checks a scratch copy of the repository instead of /repo (used when
# validating the monitors against seeded defects); VERIF_OUT=<dir> redirects evidence/ and replays/.
cd "$(dirname "$0")" || exit 3
export GOFLAGS=-mod=mod GOPROXY=off GOSUMDB=off GOTOOLCHAIN=local
export VERIF_DIR="$(pwd)"
REPO="${VERIF_REPO:-/repo}"
BIN=bin
MODFLAG=""
if [ "$REPO" != "/repo" ]; then
  TAG=$(echo "$REPO" | tr -c 'A-Za-z0-9' '_')
  BIN="bin-alt/$TAG"
  mkdir -p "$BIN"
  sed "s|=> /repo|=> $REPO|" go.mod > "$BIN/go.mod"
  cp "$REPO/go.sum" "$BIN/go.sum" 2>/dev/null
  MODFLAG="-modfile=$BIN/go.mod"
else
  cp /repo/go.sum go.sum 2>/dev/null
fi
export VERIF_REPO="$REPO"
mkdir -p "$BIN" evidence replays
if [ "$1" = "C16" ]; then
  go build $MODFLAG -race -tags verif -o "$BIN/vcheck.race" ./cmd/vcheck || { echo "build failed" >&2; exit 3; }
fi
go build $MODFLAG -tags verif -o "$BIN/vcheck" ./cmd/vcheck || { echo "build failed" >&2; exit 3; }
exec "$BIN/vcheck" "$@"
