#!/bin/sh
# ./run.sh <Cxx> <quick|thorough>      run one check against /repo's current working tree (hooks on)
# ./run.sh <Cxx> --replay <path>       re-run the case recorded in a replay file
cd "$(dirname "$0")" || exit 3
export GOFLAGS=-mod=mod GOPROXY=off GOSUMDB=off GOTOOLCHAIN=local
export VERIF_DIR="$(pwd)"
cp /repo/go.sum go.sum 2>/dev/null
mkdir -p bin evidence replays
if [ "$1" = "C16" ]; then
  go build -race -tags verif -o bin/vcheck.race ./cmd/vcheck || { echo "build failed" >&2; exit 3; }
fi
go build -tags verif -o bin/vcheck ./cmd/vcheck || { echo "build failed" >&2; exit 3; }
exec bin/vcheck "$@"
