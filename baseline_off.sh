#!/bin/sh
# Runs /repo's own test suite with the verif guard OFF and checks that every test listed as
# stable in /root/.vp/BASELINE.json passes (the suite's exit code is not trusted: packages that
# depend on golang.org/x/tools/go/packages crash under this toolchain and are not in the baseline).
export GOFLAGS=-mod=mod GOPROXY=off GOSUMDB=off GOTOOLCHAIN=local
OUT=$(mktemp)
# the suite's own helpers leave their temporary directories behind when a package crashes: give the
# run a private TMPDIR and remove it afterwards
SCRATCH=$(mktemp -d)
(cd "${BASELINE_REPO:-/repo}" && TMPDIR="$SCRATCH" go test -json -vet=off -count=1 -timeout 25m ./... > "$OUT" 2>/dev/null)
rm -rf "$SCRATCH"
python3 - "$OUT" <<'PY'
import json,sys
base=json.load(open('/root/.vp/BASELINE.json'))['stable_pass']
res={}
for l in open(sys.argv[1]):
    try: e=json.loads(l)
    except Exception: continue
    if e.get('Test') and e.get('Action') in('pass','fail','skip'):
        res[e['Package']+'::'+e['Test']]=e['Action']
def status(t):
    if t in res: return res[t]
    # baseline collapses some subtests as "*"
    if '/*' in t:
        pre=t.split('/*')[0]; suf=t.split('/*')[1]
        ms=[v for k,v in res.items() if k.startswith(pre+'/') and k.endswith(suf) and k.count('/')==t.count('/')]
        if ms: return 'pass' if all(m=='pass' for m in ms) else 'fail'
    return 'missing'
bad=[(t,status(t)) for t in base if status(t)!='pass']
print("baseline tests: %d, passing: %d"%(len(base),len(base)-len(bad)))
for t,s in bad: print("NOT PASSING:",t,s)
sys.exit(1 if bad else 0)
PY
rc=$?
rm -f "$OUT"
exit $rc
